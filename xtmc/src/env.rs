//! E1: deviation-bounded choice-point explorer and the controlled Read/Write objects.
//!
//! Every `read`, `write` and `flush` that xt performs on a `SchedReader` / `SchedWriter`
//! asks the shared `Env` which of the enumerated alternatives to take. Alternative 0 is the
//! policy default; any other answer is a *deviation*. `explore` runs the body to completion
//! under the default, then re-runs it once for every alternative at every choice point,
//! recursively, while the number of deviations stays within the bound.

use std::cell::RefCell;
use std::io::{self, Read, Write};
use std::rc::Rc;

pub const K_READ: u8 = 1;
pub const K_WRITE: u8 = 2;
pub const K_FLUSH: u8 = 3;

#[derive(Clone, Copy, Debug, PartialEq, Eq)]
pub struct Point {
	pub kind: u8,
	pub n: u16,
	pub chosen: u16,
}

#[derive(Default)]
pub struct Env {
	prefix: Vec<u16>,
	pub trace: Vec<Point>,
	/// free-form log of what the environment actually did (for replays and determinism checks)
	pub log: Vec<(u8, i64)>,
}

pub type EnvRef = Rc<RefCell<Env>>;

impl Env {
	pub fn new(prefix: Vec<u16>) -> EnvRef {
		Rc::new(RefCell::new(Env { prefix, trace: vec![], log: vec![] }))
	}

	pub fn choose(&mut self, kind: u8, n: usize) -> usize {
		assert!(n >= 1 && n < 60000);
		let i = self.trace.len();
		let c = if i < self.prefix.len() {
			let c = self.prefix[i];
			// A divergence while replaying a prefix is a hard machinery error.
			assert!(
				(c as usize) < n,
				"MACHINERY: replay divergence at point {i}: choice {c} of {n} (kind {kind})"
			);
			c
		} else {
			0
		};
		self.trace.push(Point { kind, n: n as u16, chosen: c });
		c as usize
	}

	pub fn choices(&self) -> Vec<u16> {
		self.trace.iter().map(|p| p.chosen).collect()
	}
}

#[derive(Default, Clone, Copy, Debug)]
pub struct ExploreStats {
	pub runs: u64,
	pub points: u64,
	pub max_points: usize,
	pub capped: bool,
}

/// Runs `body` for the default schedule and every schedule with at most `d` deviations.
/// `body` receives the environment and the schedule's choice prefix.
/// `max_runs` caps the number of executions (reported through `capped`).
pub fn explore(d: usize, max_runs: u64, mut body: impl FnMut(&EnvRef)) -> ExploreStats {
	let mut stats = ExploreStats::default();
	let mut stack: Vec<Vec<u16>> = vec![vec![]];
	while let Some(prefix) = stack.pop() {
		if stats.runs >= max_runs {
			stats.capped = true;
			break;
		}
		let devs = prefix.iter().filter(|&&c| c != 0).count();
		let plen = prefix.len();
		let env = Env::new(prefix);
		body(&env);
		stats.runs += 1;
		let env = env.borrow();
		stats.points += env.trace.len() as u64;
		stats.max_points = stats.max_points.max(env.trace.len());
		assert!(
			env.trace.len() >= plen,
			"MACHINERY: replayed prefix of {plen} points but run made only {}",
			env.trace.len()
		);
		if devs < d {
			for i in (plen..env.trace.len()).rev() {
				let p = env.trace[i];
				for a in (1..p.n).rev() {
					let mut np: Vec<u16> = env.trace[..i].iter().map(|p| p.chosen).collect();
					np.push(a);
					stack.push(np);
				}
			}
		}
	}
	stats
}

/// What a `SchedReader` offers at each read.
#[derive(Clone, Debug)]
pub struct ReadPolicy {
	/// default chunk size (0 = as much as the caller asks for)
	pub chunk: usize,
	/// offer "fail now and forever" as an alternative at every read
	pub faults: bool,
	/// offer alternative sizes at all (false = fixed policy, no read choice points)
	pub sizes: bool,
	/// interesting absolute offsets (token / document / code unit boundaries)
	pub marks: Rc<Vec<usize>>,
}

impl ReadPolicy {
	pub fn fixed(chunk: usize) -> Self {
		ReadPolicy { chunk, faults: false, sizes: false, marks: Rc::new(vec![]) }
	}
	pub fn exploring(chunk: usize) -> Self {
		ReadPolicy { chunk, faults: false, sizes: true, marks: Rc::new(vec![]) }
	}
}

pub const INJECTED_READ: &str = "injected read failure";

pub struct SchedReader<'a> {
	pub data: &'a [u8],
	pub pos: usize,
	env: EnvRef,
	policy: ReadPolicy,
	failed: bool,
	eof_answered: bool,
	/// called on every read() with the current source offset (before the read)
	pub on_read: Option<Box<dyn FnMut(usize) + 'a>>,
}

impl<'a> SchedReader<'a> {
	pub fn new(data: &'a [u8], env: &EnvRef, policy: ReadPolicy) -> Self {
		SchedReader { data, pos: 0, env: env.clone(), policy, failed: false, eof_answered: false, on_read: None }
	}

	fn sizes(&self, max: usize) -> Vec<usize> {
		let def = if self.policy.chunk == 0 { max } else { self.policy.chunk.min(max) };
		let mut v = vec![def];
		if !self.policy.sizes {
			return v;
		}
		let mut push = |x: usize| {
			if x >= 1 && x <= max && !v.contains(&x) {
				v.push(x);
			}
		};
		if max <= 16 {
			for k in 1..=max {
				push(k);
			}
		} else {
			push(1);
			push(2);
			push(3);
			// the next two marks after pos
			let mut seen = 0;
			for &m in self.policy.marks.iter() {
				if m > self.pos {
					let rel = m - self.pos;
					push(rel.saturating_sub(1));
					push(rel);
					push(rel + 1);
					seen += 1;
					if seen == 2 {
						break;
					}
				}
			}
			push(max - 1);
			push(max);
		}
		v
	}
}

impl Read for SchedReader<'_> {
	fn read(&mut self, buf: &mut [u8]) -> io::Result<usize> {
		if let Some(cb) = self.on_read.as_mut() {
			cb(self.pos);
		}
		if self.failed {
			return Err(io::Error::new(io::ErrorKind::Other, format!("{INJECTED_READ} @{}", self.pos)));
		}
		if buf.is_empty() {
			return Ok(0);
		}
		let remaining = self.data.len() - self.pos;
		let max = buf.len().min(remaining);
		let mut env = self.env.borrow_mut();
		if max == 0 {
			// EOF answer; with faults on, the alternative is to fail instead — but only for the
			// first EOF read: the fault model is "fails, and keeps failing, once k bytes were
			// delivered", so a reader that has already answered EOF stays at EOF.
			if self.policy.faults && !self.eof_answered {
				let c = env.choose(K_READ, 2);
				if c == 1 {
					self.failed = true;
					env.log.push((K_READ, -1));
					return Err(io::Error::new(
						io::ErrorKind::Other,
						format!("{INJECTED_READ} @{}", self.pos),
					));
				}
			}
			env.log.push((K_READ, 0));
			self.eof_answered = true;
			return Ok(0);
		}
		let sizes = self.sizes(max);
		let n_alt = sizes.len() + usize::from(self.policy.faults);
		let c = if n_alt > 1 { env.choose(K_READ, n_alt) } else { 0 };
		if c == sizes.len() {
			self.failed = true;
			env.log.push((K_READ, -1));
			return Err(io::Error::new(io::ErrorKind::Other, format!("{INJECTED_READ} @{}", self.pos)));
		}
		let n = sizes[c];
		buf[..n].copy_from_slice(&self.data[self.pos..self.pos + n]);
		self.pos += n;
		env.log.push((K_READ, n as i64));
		Ok(n)
	}
}

#[derive(Clone, Copy, Debug)]
pub struct WritePolicy {
	/// offer short writes
	pub shorts: bool,
	/// offer "fail now and forever"
	pub faults: bool,
	/// default: accept at most this many bytes per call (0 = all)
	pub chunk: usize,
}

pub const INJECTED_WRITE: &str = "injected write failure";
pub const INJECTED_FLUSH: &str = "injected flush failure";

pub struct SchedWriter {
	env: EnvRef,
	policy: WritePolicy,
	pub accepted: Rc<RefCell<Vec<u8>>>,
	failed: bool,
}

impl SchedWriter {
	pub fn new(env: &EnvRef, policy: WritePolicy) -> (Self, Rc<RefCell<Vec<u8>>>) {
		let acc = Rc::new(RefCell::new(Vec::new()));
		(SchedWriter { env: env.clone(), policy, accepted: acc.clone(), failed: false }, acc)
	}
}

impl Write for SchedWriter {
	fn write(&mut self, buf: &[u8]) -> io::Result<usize> {
		if self.failed {
			return Err(io::Error::new(io::ErrorKind::Other, INJECTED_WRITE));
		}
		if buf.is_empty() {
			return Ok(0);
		}
		let len = buf.len();
		let def = if self.policy.chunk == 0 { len } else { self.policy.chunk.min(len) };
		let mut sizes = vec![def];
		if self.policy.shorts {
			for x in [1, len - 1, (len + 1) / 2, len] {
				if x >= 1 && x <= len && !sizes.contains(&x) {
					sizes.push(x);
				}
			}
		}
		let n_alt = sizes.len() + usize::from(self.policy.faults);
		let mut env = self.env.borrow_mut();
		let c = if n_alt > 1 { env.choose(K_WRITE, n_alt) } else { 0 };
		if c == sizes.len() {
			self.failed = true;
			env.log.push((K_WRITE, -1));
			return Err(io::Error::new(io::ErrorKind::Other, INJECTED_WRITE));
		}
		let n = sizes[c];
		self.accepted.borrow_mut().extend_from_slice(&buf[..n]);
		env.log.push((K_WRITE, n as i64));
		Ok(n)
	}

	fn flush(&mut self) -> io::Result<()> {
		if self.failed {
			return Err(io::Error::new(io::ErrorKind::Other, INJECTED_FLUSH));
		}
		if self.policy.faults {
			let mut env = self.env.borrow_mut();
			if env.choose(K_FLUSH, 2) == 1 {
				self.failed = true;
				return Err(io::Error::new(io::ErrorKind::Other, INJECTED_FLUSH));
			}
		}
		Ok(())
	}
}

/// Reader that delivers exactly `k` bytes (in `chunk`-sized reads, 0 = max) and then fails forever.
/// `k == data.len()` replaces the EOF answer by the failure.
pub struct FailAtReader<'a> {
	pub data: &'a [u8],
	pub pos: usize,
	pub k: usize,
	pub chunk: usize,
	pub text: String,
	pub failed_reads: u32,
	/// error kind of the failure; `Interrupted` is returned once (the conventional "try again"), every
	/// later call fails with `Other`
	pub kind: io::ErrorKind,
}

impl<'a> FailAtReader<'a> {
	pub fn new(data: &'a [u8], k: usize, chunk: usize) -> Self {
		FailAtReader { data, pos: 0, k, chunk, text: format!("{INJECTED_READ} @{k}"), failed_reads: 0, kind: io::ErrorKind::Other }
	}
	pub fn with_kind(mut self, kind: io::ErrorKind) -> Self {
		self.kind = kind;
		self
	}
}

impl Read for FailAtReader<'_> {
	fn read(&mut self, buf: &mut [u8]) -> io::Result<usize> {
		if buf.is_empty() {
			return Ok(0);
		}
		if self.pos >= self.k {
			self.failed_reads += 1;
			let kind = if self.kind == io::ErrorKind::Interrupted && self.failed_reads > 1 { io::ErrorKind::Other } else { self.kind };
			return Err(io::Error::new(kind, self.text.clone()));
		}
		let mut n = buf.len().min(self.k - self.pos);
		if self.chunk > 0 {
			n = n.min(self.chunk);
		}
		buf[..n].copy_from_slice(&self.data[self.pos..self.pos + n]);
		self.pos += n;
		Ok(n)
	}
}

/// Writer that accepts exactly `k` bytes in total and then fails forever (default), reports `Ok(0)`
/// forever (a full fixed-size buffer: `zero`), or fails exactly once and then accepts everything (`once`).
pub struct FailAtWriter {
	pub k: usize,
	pub accepted: Rc<RefCell<Vec<u8>>>,
	pub text: String,
	pub mode: u8,
	pub failed: bool,
}

impl FailAtWriter {
	pub fn new(k: usize) -> (Self, Rc<RefCell<Vec<u8>>>) {
		let acc = Rc::new(RefCell::new(Vec::new()));
		(FailAtWriter { k, accepted: acc.clone(), text: format!("{INJECTED_WRITE} @{k}"), mode: 0, failed: false }, acc)
	}
	pub fn zero(k: usize) -> (Self, Rc<RefCell<Vec<u8>>>) {
		let (mut w, acc) = Self::new(k);
		w.mode = 1;
		(w, acc)
	}
	pub fn once(k: usize) -> (Self, Rc<RefCell<Vec<u8>>>) {
		let (mut w, acc) = Self::new(k);
		w.mode = 2;
		(w, acc)
	}
}

impl Write for FailAtWriter {
	fn write(&mut self, buf: &[u8]) -> io::Result<usize> {
		if buf.is_empty() {
			return Ok(0);
		}
		let mut acc = self.accepted.borrow_mut();
		if self.mode == 2 && self.failed {
			acc.extend_from_slice(buf);
			return Ok(buf.len());
		}
		if acc.len() >= self.k {
			self.failed = true;
			if self.mode == 1 {
				return Ok(0);
			}
			return Err(io::Error::new(io::ErrorKind::Other, self.text.clone()));
		}
		let n = buf.len().min(self.k - acc.len());
		acc.extend_from_slice(&buf[..n]);
		Ok(n)
	}
	fn flush(&mut self) -> io::Result<()> {
		Ok(())
	}
}


/// Reader that reports `ErrorKind::Interrupted` exactly once, when `k` bytes were delivered (the
/// conventional "try again"), and otherwise delivers the data in `chunk`-sized reads (0 = all at once).
pub struct InterruptOnceReader<'a> {
	pub data: &'a [u8],
	pub pos: usize,
	pub k: usize,
	pub chunk: usize,
	pub done: bool,
}

impl<'a> InterruptOnceReader<'a> {
	pub fn new(data: &'a [u8], k: usize, chunk: usize) -> Self {
		InterruptOnceReader { data, pos: 0, k, chunk, done: false }
	}
}

impl Read for InterruptOnceReader<'_> {
	fn read(&mut self, buf: &mut [u8]) -> io::Result<usize> {
		if buf.is_empty() {
			return Ok(0);
		}
		if !self.done && self.pos >= self.k {
			self.done = true;
			return Err(io::Error::new(io::ErrorKind::Interrupted, "interrupted (injected, once)"));
		}
		let mut n = buf.len().min(self.data.len() - self.pos);
		if !self.done {
			n = n.min(self.k - self.pos);
		}
		if self.chunk > 0 {
			n = n.min(self.chunk);
		}
		buf[..n].copy_from_slice(&self.data[self.pos..self.pos + n]);
		self.pos += n;
		Ok(n)
	}
}
