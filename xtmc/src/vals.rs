//! Value generators for the model-based checks (C01, C03, C06, C08, C10).

use crate::model::V;

/// Structural scalar alphabet for tree enumeration (simplest first).
pub fn small_scalars() -> Vec<V> {
	vec![V::Int(1), V::s("a"), V::Bool(true), V::Null, V::f(-2.5), V::s("")]
}

pub fn key_alphabet() -> Vec<&'static str> {
	vec!["a", "b", "", "1", "a b", "é", "true", "k.x", "a\"b"]
}

/// All ordered trees with exactly `n` nodes; leaves from `leaves`, map keys k0,k1,.. from `keys`.
fn trees_exact(n: usize, leaves: &[V], keys: &[&str], memo: &mut Vec<Option<Vec<V>>>) -> Vec<V> {
	if let Some(Some(v)) = memo.get(n) {
		return v.clone();
	}
	let mut out = vec![];
	if n == 1 {
		out.extend(leaves.iter().cloned());
		out.push(V::Arr(vec![]));
		out.push(V::Map(vec![]));
	} else if n > 1 {
		// a collection node + forests of total size n-1
		for forest in forests(n - 1, leaves, keys, memo) {
			out.push(V::Arr(forest.clone()));
			if forest.len() <= keys.len() {
				out.push(V::Map(forest.into_iter().enumerate().map(|(i, v)| (V::s(keys[i]), v)).collect()));
			}
		}
	}
	while memo.len() <= n {
		memo.push(None);
	}
	memo[n] = Some(out.clone());
	out
}

fn forests(total: usize, leaves: &[V], keys: &[&str], memo: &mut Vec<Option<Vec<V>>>) -> Vec<Vec<V>> {
	if total == 0 {
		return vec![vec![]];
	}
	let mut out = vec![];
	for first in 1..=total {
		let heads = trees_exact(first, leaves, keys, memo);
		let tails = forests(total - first, leaves, keys, memo);
		for h in &heads {
			for t in &tails {
				let mut f = vec![h.clone()];
				f.extend(t.iter().cloned());
				out.push(f);
			}
		}
	}
	out
}

/// All trees with <= n nodes over the given leaves.
pub fn trees(n: usize, leaves: &[V], keys: &[&str]) -> Vec<V> {
	let mut memo = vec![];
	let mut out = vec![];
	for k in 1..=n {
		out.extend(trees_exact(k, leaves, keys, &mut memo));
	}
	out
}

/// All +-2^j, +-2^j+-1 clipped to [-2^63, 2^64-1], plus small values.
pub fn int_family() -> Vec<i128> {
	let mut v: Vec<i128> = vec![];
	for j in 0..=64u32 {
		let p = 1i128 << j;
		for x in [p - 1, p, p + 1, -p - 1, -p, -p + 1] {
			v.push(x);
		}
	}
	for x in [0, 7, -7, 10, 100, 127, 128, 255, 256, -32, -33, -128, -129, 32767, 32768, -32768, -32769, 65535, 65536] {
		v.push(x);
	}
	v.retain(|&x| x >= -(1i128 << 63) && x < (1i128 << 64));
	v.sort_unstable();
	v.dedup();
	v
}

/// Finite binary64 values: every `step`-th exponent x a mantissa family, plus special edges.
pub fn float_family(exp_step: usize) -> Vec<u64> {
	let mut mants: Vec<u64> = vec![0, 1, (1 << 52) - 1, 1 << 51, 0x5555555555555, 0xAAAAAAAAAAAAA, 0x8000000000001, 0x7ffffffffffff];
	for j in [1u32, 7, 13, 26, 40, 51] {
		mants.push(1 << j);
		mants.push((1 << j) - 1);
	}
	let mut v = vec![];
	let mut e = 0u64;
	while e <= 2046 {
		for &m in &mants {
			for sign in [0u64, 1] {
				v.push((sign << 63) | (e << 52) | m);
			}
		}
		e += exp_step as u64;
	}
	for f in [0.0f64, -0.0, 1.0, -1.0, 0.1, 0.5, 1.5, 42.1337, 1e300, 1e-300, 5e-324, f64::MAX, f64::MIN_POSITIVE, 2.7715077941825975e-163,
		3.4028234663852886e38, 0.10000000149011612, 3.1415927410125732, 1e21, 1e22, 1e23, 123456789012345680.0, 9007199254740993.0, 0.30000000000000004] {
		v.push(f.to_bits());
	}
	v.sort_unstable();
	v.dedup();
	v
}

/// A deterministic pseudo-random double stream (not sampling for a verdict: it only widens the
/// enumerated float alphabet; the list is fixed for a given count).
pub fn scrambled_floats(count: usize) -> Vec<u64> {
	let mut x: u64 = 0x9E3779B97F4A7C15;
	let mut v = Vec::with_capacity(count);
	while v.len() < count {
		x ^= x << 13;
		x ^= x >> 7;
		x ^= x << 17;
		if f64::from_bits(x).is_finite() {
			v.push(x);
		}
	}
	v
}

/// Strings that look like other types or like structure, blanks, quotes, controls, specials.
pub fn string_family() -> Vec<String> {
	let mut v: Vec<String> = [
		"true", "false", "null", "~", "123", "-1", "1e3", "0x1F", "0o17", ".inf", ".nan", "-.inf", "2001-01-01", "2001-01-01T00:00:00Z", "yes", "no", "on",
		"off", "y", "n", "True", "NULL", "1.0", "+1", "1_000", ".5", "1.", "0b1", "a: b", "- a", "#x", "x #y", "[", "]", "{", "}", "[a]", "{a: b}",
		"---", "...", "--- a", "= ", "a = 1", "[t]", "[[t]]", " lead", "trail ", " ", "  ", "", "\"", "'", "\\", "\"q\"", "'q'", "a\"b", "a'b", "a\\b",
		"\\n", "a\nb", "a\n", "\nb", "a\r\nb", "a\tb", "\t", "a\u{0}b", "\u{7f}", "\u{85}", "\u{a0}", "\u{2028}", "\u{2029}", "\u{feff}", "\u{feff}x",
		"\u{fffe}", "\u{ffff}", "\u{10ffff}", "\u{1f600}", "é", "日本語", "a,b", "a:b", "a: ", ":", "?", "? a", "!", "!t x", "&a", "*a", "|", ">", "%", "@", "`",
		"key: [1, 2]", "multi\nline\ntext\n", "  indented\n    more", "trailing\n\n", "- ", "-", "--", "a - b", "<<", "=", "0", "00", "-0", "0.0", "1e400", "٣",
	]
	.iter()
	.map(|s| s.to_string())
	.collect();
	for c in 0u32..0x20 {
		v.push(format!("c{}d", char::from_u32(c).unwrap()));
	}
	for c in 0x80u32..0xa0 {
		v.push(format!("c{}d", char::from_u32(c).unwrap()));
	}
	v
}

/// Every Unicode scalar value, `per` consecutive scalars per string.
pub fn all_scalar_strings(per: usize) -> Vec<String> {
	let mut out = vec![];
	let mut cur = String::new();
	let mut n = 0;
	for u in 0u32..=0x10ffff {
		if let Some(c) = char::from_u32(u) {
			cur.push(c);
			n += 1;
			if n == per {
				out.push(std::mem::take(&mut cur));
				n = 0;
			}
		}
	}
	if !cur.is_empty() {
		out.push(cur);
	}
	out
}

pub fn chain(depth: usize, maps: bool, alternate: bool, leaf: V) -> V {
	let mut v = leaf;
	for i in 0..depth {
		let as_map = if alternate { i % 2 == 0 } else { maps };
		v = if as_map { V::Map(vec![(V::s("k"), v)]) } else { V::Arr(vec![v]) };
	}
	v
}
