//! Reference value model and the harness's own (independent) JSON and MessagePack readers.

use std::fmt::Write as _;

/// The common data model plus the per-pair extensions.
#[derive(Clone, Debug, PartialEq)]
pub enum V {
	Null,
	Bool(bool),
	/// integers in [-2^63, 2^64-1]
	Int(i128),
	/// binary64 by bit pattern
	Float(u64),
	Str(String),
	Arr(Vec<V>),
	/// entry order is significant
	Map(Vec<(V, V)>),
	// --- extensions (outside the common model) ---
	Bytes(Vec<u8>),
	F32(u32),
	/// TOML date-time etc., kept as its text
	Other(String),
}

impl V {
	pub fn s(x: &str) -> V {
		V::Str(x.to_string())
	}
	pub fn f(x: f64) -> V {
		V::Float(x.to_bits())
	}
	pub fn map(entries: Vec<(&str, V)>) -> V {
		V::Map(entries.into_iter().map(|(k, v)| (V::s(k), v)).collect())
	}
	pub fn is_collection(&self) -> bool {
		matches!(self, V::Arr(_) | V::Map(_))
	}
	/// Canonical typed dump; equality of dumps is equality of values (floats by bits).
	pub fn dump(&self) -> String {
		let mut s = String::new();
		self.dump_into(&mut s);
		s
	}
	fn dump_into(&self, s: &mut String) {
		match self {
			V::Null => s.push('n'),
			V::Bool(b) => s.push(if *b { 'T' } else { 'F' }),
			V::Int(i) => {
				let _ = write!(s, "i:{i}");
			}
			V::Float(b) => {
				// every NaN is the same value
				let b = if f64::from_bits(*b).is_nan() { 0x7ff8000000000000 } else { *b };
				let _ = write!(s, "f:{b:016x}");
			}
			V::Str(x) => {
				s.push_str("s:");
				s.push_str(&crate::util::hex(x.as_bytes()));
			}
			V::Arr(a) => {
				s.push('[');
				for (i, x) in a.iter().enumerate() {
					if i > 0 {
						s.push(' ');
					}
					x.dump_into(s);
				}
				s.push(']');
			}
			V::Map(m) => {
				s.push('{');
				for (i, (k, v)) in m.iter().enumerate() {
					if i > 0 {
						s.push(' ');
					}
					k.dump_into(s);
					s.push('=');
					v.dump_into(s);
				}
				s.push('}');
			}
			V::Bytes(b) => {
				s.push_str("b:");
				s.push_str(&crate::util::hex(b));
			}
			V::F32(b) => {
				let _ = write!(s, "g:{b:08x}");
			}
			V::Other(t) => {
				s.push_str("o:");
				s.push_str(&crate::util::hex(t.as_bytes()));
			}
		}
	}
	pub fn nodes(&self) -> usize {
		match self {
			V::Arr(a) => 1 + a.iter().map(V::nodes).sum::<usize>(),
			V::Map(m) => 1 + m.iter().map(|(_, v)| v.nodes()).sum::<usize>(),
			_ => 1,
		}
	}
	pub fn depth(&self) -> usize {
		match self {
			V::Arr(a) => 1 + a.iter().map(V::depth).max().unwrap_or(0),
			V::Map(m) => 1 + m.iter().map(|(_, v)| v.depth()).max().unwrap_or(0),
			_ => 0,
		}
	}
	pub fn any(&self, f: &dyn Fn(&V) -> bool) -> bool {
		if f(self) {
			return true;
		}
		match self {
			V::Arr(a) => a.iter().any(|x| x.any(f)),
			V::Map(m) => m.iter().any(|(k, v)| k.any(f) || v.any(f)),
			_ => false,
		}
	}
	/// TOML's stable partition: inside every table, non-table entries first, then tables
	/// (a table entry is a map, or a non-empty array whose elements are all maps).
	/// The ordering actually produced by the `toml` crate's pretty serializer (known finding): at the
	/// root, non-tables first and then tables and arrays of tables in input order; inside every nested
	/// table, non-tables, then ARRAYS OF TABLES, then tables. Only used by an explanation test.
	pub fn toml_reordered_as_observed(&self, root: bool) -> V {
		match self {
			V::Arr(a) => V::Arr(a.iter().map(|x| x.toml_reordered_as_observed(false)).collect()),
			V::Map(m) => {
				let items: Vec<(V, V)> = m.iter().map(|(k, v)| (k.clone(), v.toml_reordered_as_observed(false))).collect();
				let is_aot = |v: &V| matches!(v, V::Arr(a) if !a.is_empty() && a.iter().all(|x| matches!(x, V::Map(_))));
				let is_tbl = |v: &V| matches!(v, V::Map(_));
				let mut out: Vec<(V, V)> = items.iter().filter(|(_, v)| !is_tbl(v) && !is_aot(v)).cloned().collect();
				if root {
					out.extend(items.iter().filter(|(_, v)| is_tbl(v) || is_aot(v)).cloned());
				} else {
					out.extend(items.iter().filter(|(_, v)| is_aot(v)).cloned());
					out.extend(items.iter().filter(|(_, v)| is_tbl(v)).cloned());
				}
				V::Map(out)
			}
			x => x.clone(),
		}
	}
	pub fn toml_reordered(&self) -> V {
		match self {
			V::Arr(a) => V::Arr(a.iter().map(V::toml_reordered).collect()),
			V::Map(m) => {
				let items: Vec<(V, V)> = m.iter().map(|(k, v)| (k.clone(), v.toml_reordered())).collect();
				let is_table = |v: &V| match v {
					V::Map(_) => true,
					V::Arr(a) => !a.is_empty() && a.iter().all(|x| matches!(x, V::Map(_))),
					_ => false,
				};
				let mut out: Vec<(V, V)> = items.iter().filter(|(_, v)| !is_table(v)).cloned().collect();
				out.extend(items.iter().filter(|(_, v)| is_table(v)).cloned());
				V::Map(out)
			}
			x => x.clone(),
		}
	}
}

// ------------------------------------------------------------------------------------------
// Strict RFC 8259 JSON reader (hand-written; shares no code with serde_json).
// Numbers are typed by lexical form: no '.', 'e', 'E' => integer (if it fits the model),
// otherwise float via Rust's correctly rounded str::parse::<f64>.
// ------------------------------------------------------------------------------------------

pub struct JsonReader<'a> {
	b: &'a [u8],
	pub pos: usize,
	pub dup_keys: bool,
	depth: usize,
}

impl<'a> JsonReader<'a> {
	pub fn new(b: &'a [u8]) -> Self {
		JsonReader { b, pos: 0, dup_keys: false, depth: 0 }
	}
	pub fn skip_ws(&mut self) {
		while self.pos < self.b.len() && matches!(self.b[self.pos], b' ' | b'\n' | b'\r' | b'\t') {
			self.pos += 1;
		}
	}
	pub fn at_end(&mut self) -> bool {
		self.skip_ws();
		self.pos >= self.b.len()
	}
	fn err<T>(&self, m: &str) -> Result<T, String> {
		Err(format!("json: {m} at {}", self.pos))
	}
	pub fn value(&mut self) -> Result<V, String> {
		self.skip_ws();
		if self.pos >= self.b.len() {
			return self.err("eof");
		}
		self.depth += 1;
		if self.depth > 2000 {
			return self.err("too deep");
		}
		let r = match self.b[self.pos] {
			b'{' => self.object(),
			b'[' => self.array(),
			b'"' => self.string().map(V::Str),
			b't' => self.lit(b"true", V::Bool(true)),
			b'f' => self.lit(b"false", V::Bool(false)),
			b'n' => self.lit(b"null", V::Null),
			b'-' | b'0'..=b'9' => self.number(),
			_ => self.err("unexpected byte"),
		};
		self.depth -= 1;
		r
	}
	fn lit(&mut self, w: &[u8], v: V) -> Result<V, String> {
		if self.b[self.pos..].starts_with(w) {
			self.pos += w.len();
			Ok(v)
		} else {
			self.err("bad literal")
		}
	}
	fn number(&mut self) -> Result<V, String> {
		let start = self.pos;
		let b = self.b;
		let mut p = self.pos;
		if p < b.len() && b[p] == b'-' {
			p += 1;
		}
		if p >= b.len() {
			return self.err("bad number");
		}
		if b[p] == b'0' {
			p += 1;
		} else if b[p].is_ascii_digit() {
			while p < b.len() && b[p].is_ascii_digit() {
				p += 1;
			}
		} else {
			return self.err("bad number");
		}
		let mut is_float = false;
		if p < b.len() && b[p] == b'.' {
			is_float = true;
			p += 1;
			if p >= b.len() || !b[p].is_ascii_digit() {
				return self.err("bad fraction");
			}
			while p < b.len() && b[p].is_ascii_digit() {
				p += 1;
			}
		}
		if p < b.len() && (b[p] == b'e' || b[p] == b'E') {
			is_float = true;
			p += 1;
			if p < b.len() && (b[p] == b'+' || b[p] == b'-') {
				p += 1;
			}
			if p >= b.len() || !b[p].is_ascii_digit() {
				return self.err("bad exponent");
			}
			while p < b.len() && b[p].is_ascii_digit() {
				p += 1;
			}
		}
		self.pos = p;
		let text = std::str::from_utf8(&b[start..p]).unwrap();
		if !is_float {
			if let Ok(i) = text.parse::<i128>() {
				if i >= -(1i128 << 63) && i < (1i128 << 64) {
					return Ok(V::Int(i));
				}
			}
		}
		let f: f64 = text.parse().map_err(|_| format!("json: float parse {text}"))?;
		Ok(V::Float(f.to_bits()))
	}
	fn hex4(&mut self) -> Result<u32, String> {
		if self.pos + 4 > self.b.len() {
			return self.err("short \\u");
		}
		let s = std::str::from_utf8(&self.b[self.pos..self.pos + 4]).map_err(|_| "json: bad \\u".to_string())?;
		let v = u32::from_str_radix(s, 16).map_err(|_| format!("json: bad \\u at {}", self.pos))?;
		if !s.bytes().all(|c| c.is_ascii_hexdigit()) {
			return self.err("bad \\u");
		}
		self.pos += 4;
		Ok(v)
	}
	pub fn string(&mut self) -> Result<String, String> {
		self.pos += 1;
		let mut out: Vec<u8> = vec![];
		loop {
			if self.pos >= self.b.len() {
				return self.err("unterminated string");
			}
			let c = self.b[self.pos];
			self.pos += 1;
			match c {
				b'"' => break,
				b'\\' => {
					if self.pos >= self.b.len() {
						return self.err("bad escape");
					}
					let e = self.b[self.pos];
					self.pos += 1;
					match e {
						b'"' => out.push(b'"'),
						b'\\' => out.push(b'\\'),
						b'/' => out.push(b'/'),
						b'b' => out.push(8),
						b'f' => out.push(12),
						b'n' => out.push(b'\n'),
						b'r' => out.push(b'\r'),
						b't' => out.push(b'\t'),
						b'u' => {
							let mut cp = self.hex4()?;
							if (0xD800..0xDC00).contains(&cp) {
								if self.b[self.pos..].starts_with(b"\\u") {
									self.pos += 2;
									let lo = self.hex4()?;
									if !(0xDC00..0xE000).contains(&lo) {
										return self.err("bad low surrogate");
									}
									cp = 0x10000 + ((cp - 0xD800) << 10) + (lo - 0xDC00);
								} else {
									return self.err("lone high surrogate");
								}
							} else if (0xDC00..0xE000).contains(&cp) {
								return self.err("lone low surrogate");
							}
							let ch = char::from_u32(cp).ok_or("json: bad code point")?;
							let mut buf = [0u8; 4];
							out.extend_from_slice(ch.encode_utf8(&mut buf).as_bytes());
						}
						_ => return self.err("unknown escape"),
					}
				}
				0..=0x1f => return self.err("control character in string"),
				_ => out.push(c),
			}
		}
		String::from_utf8(out).map_err(|_| format!("json: invalid utf-8 in string before {}", self.pos))
	}
	fn array(&mut self) -> Result<V, String> {
		self.pos += 1;
		let mut v = vec![];
		self.skip_ws();
		if self.pos < self.b.len() && self.b[self.pos] == b']' {
			self.pos += 1;
			return Ok(V::Arr(v));
		}
		loop {
			v.push(self.value()?);
			self.skip_ws();
			if self.pos >= self.b.len() {
				return self.err("unterminated array");
			}
			match self.b[self.pos] {
				b',' => self.pos += 1,
				b']' => {
					self.pos += 1;
					return Ok(V::Arr(v));
				}
				_ => return self.err("expected , or ]"),
			}
		}
	}
	fn object(&mut self) -> Result<V, String> {
		self.pos += 1;
		let mut m: Vec<(V, V)> = vec![];
		let mut keys: std::collections::HashSet<String> = std::collections::HashSet::new();
		self.skip_ws();
		if self.pos < self.b.len() && self.b[self.pos] == b'}' {
			self.pos += 1;
			return Ok(V::Map(m));
		}
		loop {
			self.skip_ws();
			if self.pos >= self.b.len() || self.b[self.pos] != b'"' {
				return self.err("expected key");
			}
			let k = self.string()?;
			self.skip_ws();
			if self.pos >= self.b.len() || self.b[self.pos] != b':' {
				return self.err("expected :");
			}
			self.pos += 1;
			let v = self.value()?;
			if !keys.insert(k.clone()) {
				self.dup_keys = true;
			}
			m.push((V::Str(k), v));
			self.skip_ws();
			if self.pos >= self.b.len() {
				return self.err("unterminated object");
			}
			match self.b[self.pos] {
				b',' => self.pos += 1,
				b'}' => {
					self.pos += 1;
					return Ok(V::Map(m));
				}
				_ => return self.err("expected , or }"),
			}
		}
	}
}

/// Reads a whole JSON stream (values separated by optional whitespace).
pub fn read_json_stream(b: &[u8]) -> Result<Vec<V>, String> {
	let mut r = JsonReader::new(b);
	let mut out = vec![];
	while !r.at_end() {
		out.push(r.value()?);
	}
	Ok(out)
}

/// xt's JSON framing: every document is exactly one line.
pub fn read_json_lines(b: &[u8]) -> Result<Vec<V>, String> {
	if b.is_empty() {
		return Ok(vec![]);
	}
	if *b.last().unwrap() != b'\n' {
		return Err("json output does not end with a newline".into());
	}
	let mut out = vec![];
	for line in b[..b.len() - 1].split(|&c| c == b'\n') {
		let mut r = JsonReader::new(line);
		let v = r.value()?;
		if !r.at_end() {
			return Err(format!("json line holds more than one value: {}", crate::util::show(line)));
		}
		out.push(v);
	}
	Ok(out)
}

/// Offsets i such that a bare scalar (literal or number) ends at i and the byte at i is one that
/// serde_json's slice iterator rejects as "trailing characters" while a fresh parse would accept
/// a new value there. Used only by the explanation test of a known finding.
pub fn json_adjacent_scalar_boundaries(b: &[u8]) -> Vec<usize> {
	let mut out = vec![];
	let mut i = 0;
	while i < b.len() {
		match b[i] {
			b'"' => {
				i += 1;
				while i < b.len() && b[i] != b'"' {
					if b[i] == b'\\' {
						i += 1;
					}
					i += 1;
				}
				i += 1;
			}
			b't' | b'f' | b'n' | b'-' | b'0'..=b'9' => {
				let mut r = JsonReader::new(b);
				r.pos = i;
				let ok = match b[i] {
					b't' => r.lit(b"true", V::Null).is_ok(),
					b'f' => r.lit(b"false", V::Null).is_ok(),
					b'n' => r.lit(b"null", V::Null).is_ok(),
					_ => r.number().is_ok(),
				};
				if ok && r.pos > i {
					i = r.pos;
					if i < b.len()
						&& !matches!(b[i], b' ' | b'\n' | b'\t' | b'\r' | b'"' | b'[' | b']' | b'{' | b'}' | b',' | b':')
					{
						out.push(i);
					}
				} else {
					i += 1;
				}
			}
			_ => i += 1,
		}
	}
	out
}

// ------------------------------------------------------------------------------------------
// MessagePack decoder (hand-written; never uses rmp).
// ------------------------------------------------------------------------------------------

pub struct MpReader<'a> {
	b: &'a [u8],
	pub pos: usize,
}

impl<'a> MpReader<'a> {
	pub fn new(b: &'a [u8]) -> Self {
		MpReader { b, pos: 0 }
	}
	fn take(&mut self, n: usize) -> Result<&'a [u8], String> {
		if self.b.len() - self.pos < n {
			return Err(format!("msgpack: truncated at {}", self.pos));
		}
		let s = &self.b[self.pos..self.pos + n];
		self.pos += n;
		Ok(s)
	}
	fn be(&mut self, n: usize) -> Result<u64, String> {
		let s = self.take(n)?;
		Ok(s.iter().fold(0u64, |a, &x| (a << 8) | u64::from(x)))
	}
	fn str_(&mut self, n: usize) -> Result<V, String> {
		let s = self.take(n)?;
		match std::str::from_utf8(s) {
			Ok(t) => Ok(V::Str(t.to_string())),
			Err(_) => Ok(V::Bytes(s.to_vec())),
		}
	}
	fn arr(&mut self, n: usize, depth: usize) -> Result<V, String> {
		let mut v = Vec::with_capacity(n.min(4096));
		for _ in 0..n {
			v.push(self.value_d(depth + 1)?);
		}
		Ok(V::Arr(v))
	}
	fn map(&mut self, n: usize, depth: usize) -> Result<V, String> {
		let mut v = Vec::with_capacity(n.min(4096));
		for _ in 0..n {
			let k = self.value_d(depth + 1)?;
			let x = self.value_d(depth + 1)?;
			v.push((k, x));
		}
		Ok(V::Map(v))
	}
	pub fn value(&mut self) -> Result<V, String> {
		self.value_d(0)
	}
	fn value_d(&mut self, depth: usize) -> Result<V, String> {
		if depth > 5000 {
			return Err("msgpack: too deep".into());
		}
		let m = self.take(1)?[0];
		Ok(match m {
			0x00..=0x7f => V::Int(i128::from(m)),
			0x80..=0x8f => return self.map((m & 0x0f) as usize, depth),
			0x90..=0x9f => return self.arr((m & 0x0f) as usize, depth),
			0xa0..=0xbf => return self.str_((m & 0x1f) as usize),
			0xc0 => V::Null,
			0xc1 => return Err("msgpack: reserved marker".into()),
			0xc2 => V::Bool(false),
			0xc3 => V::Bool(true),
			0xc4 => {
				let n = self.be(1)? as usize;
				V::Bytes(self.take(n)?.to_vec())
			}
			0xc5 => {
				let n = self.be(2)? as usize;
				V::Bytes(self.take(n)?.to_vec())
			}
			0xc6 => {
				let n = self.be(4)? as usize;
				V::Bytes(self.take(n)?.to_vec())
			}
			0xc7 => {
				let n = self.be(1)? as usize;
				V::Other(format!("ext:{}", crate::util::hex(self.take(n + 1)?)))
			}
			0xc8 => {
				let n = self.be(2)? as usize;
				V::Other(format!("ext:{}", crate::util::hex(self.take(n + 1)?)))
			}
			0xc9 => {
				let n = self.be(4)? as usize;
				V::Other(format!("ext:{}", crate::util::hex(self.take(n + 1)?)))
			}
			0xca => V::F32(self.be(4)? as u32),
			0xcb => V::Float(self.be(8)?),
			0xcc => V::Int(i128::from(self.be(1)?)),
			0xcd => V::Int(i128::from(self.be(2)?)),
			0xce => V::Int(i128::from(self.be(4)?)),
			0xcf => V::Int(i128::from(self.be(8)?)),
			0xd0 => V::Int(i128::from(self.be(1)? as u8 as i8)),
			0xd1 => V::Int(i128::from(self.be(2)? as u16 as i16)),
			0xd2 => V::Int(i128::from(self.be(4)? as u32 as i32)),
			0xd3 => V::Int(i128::from(self.be(8)? as i64)),
			0xd4 => V::Other(format!("ext:{}", crate::util::hex(self.take(2)?))),
			0xd5 => V::Other(format!("ext:{}", crate::util::hex(self.take(3)?))),
			0xd6 => V::Other(format!("ext:{}", crate::util::hex(self.take(5)?))),
			0xd7 => V::Other(format!("ext:{}", crate::util::hex(self.take(9)?))),
			0xd8 => V::Other(format!("ext:{}", crate::util::hex(self.take(17)?))),
			0xd9 => {
				let n = self.be(1)? as usize;
				return self.str_(n);
			}
			0xda => {
				let n = self.be(2)? as usize;
				return self.str_(n);
			}
			0xdb => {
				let n = self.be(4)? as usize;
				return self.str_(n);
			}
			0xdc => {
				let n = self.be(2)? as usize;
				return self.arr(n, depth);
			}
			0xdd => {
				let n = self.be(4)? as usize;
				return self.arr(n, depth);
			}
			0xde => {
				let n = self.be(2)? as usize;
				return self.map(n, depth);
			}
			0xdf => {
				let n = self.be(4)? as usize;
				return self.map(n, depth);
			}
			0xe0..=0xff => V::Int(i128::from(m as i8)),
		})
	}
}

/// Back-to-back values consuming all bytes.
pub fn read_msgpack_stream(b: &[u8]) -> Result<Vec<V>, String> {
	let mut r = MpReader::new(b);
	let mut out = vec![];
	while r.pos < b.len() {
		out.push(r.value()?);
	}
	Ok(out)
}

// ------------------------------------------------------------------------------------------
// Parsing canonical dumps back (used for dumps produced by the out-of-process TOML reader) and
// locating the leaves at which two values differ.
// ------------------------------------------------------------------------------------------

pub fn parse_dump(s: &str) -> Option<V> {
	fn go(b: &[u8], i: &mut usize) -> Option<V> {
		let tok_end = |b: &[u8], mut j: usize| {
			while j < b.len() && !matches!(b[j], b' ' | b']' | b'}' | b'=') {
				j += 1;
			}
			j
		};
		match *b.get(*i)? {
			b'n' => {
				*i += 1;
				Some(V::Null)
			}
			b'T' => {
				*i += 1;
				Some(V::Bool(true))
			}
			b'F' => {
				*i += 1;
				Some(V::Bool(false))
			}
			b'[' => {
				*i += 1;
				let mut v = vec![];
				loop {
					if *b.get(*i)? == b']' {
						*i += 1;
						return Some(V::Arr(v));
					}
					if b[*i] == b' ' {
						*i += 1;
					}
					v.push(go(b, i)?);
				}
			}
			b'{' => {
				*i += 1;
				let mut v = vec![];
				loop {
					if *b.get(*i)? == b'}' {
						*i += 1;
						return Some(V::Map(v));
					}
					if b[*i] == b' ' {
						*i += 1;
					}
					let k = go(b, i)?;
					if *b.get(*i)? != b'=' {
						return None;
					}
					*i += 1;
					let x = go(b, i)?;
					v.push((k, x));
				}
			}
			c @ (b'i' | b'f' | b's' | b'b' | b'g' | b'o') => {
				let j = tok_end(b, *i + 2);
				let body = std::str::from_utf8(&b[*i + 2..j]).ok()?;
				*i = j;
				Some(match c {
					b'i' => V::Int(body.parse().ok()?),
					b'f' => V::Float(u64::from_str_radix(body, 16).ok()?),
					b's' => V::Str(String::from_utf8(crate::util::unhex(body)).ok()?),
					b'b' => V::Bytes(crate::util::unhex(body)),
					b'g' => V::F32(u32::from_str_radix(body, 16).ok()?),
					_ => V::Other(String::from_utf8(crate::util::unhex(body)).ok()?),
				})
			}
			_ => None,
		}
	}
	let mut i = 0;
	let v = go(s.as_bytes(), &mut i)?;
	(i == s.len()).then_some(v)
}

/// Collects (path, got, want) for every position where the two values differ (leaf or shape).
pub fn diff_leaves(got: &V, want: &V, path: &str, out: &mut Vec<(String, V, V)>) {
	if out.len() >= 40 {
		return;
	}
	match (got, want) {
		(V::Arr(a), V::Arr(b)) if a.len() == b.len() => {
			for (i, (x, y)) in a.iter().zip(b.iter()).enumerate() {
				diff_leaves(x, y, &format!("{path}[{i}]"), out);
			}
		}
		(V::Map(a), V::Map(b)) if a.len() == b.len() => {
			for (i, ((ka, va), (kb, vb))) in a.iter().zip(b.iter()).enumerate() {
				diff_leaves(ka, kb, &format!("{path}.key{i}"), out);
				diff_leaves(va, vb, &format!("{path}.val{i}"), out);
			}
		}
		(a, b) => {
			if a.dump() != b.dump() {
				out.push((path.to_string(), a.clone(), b.clone()));
			}
		}
	}
}

pub fn kind_name(v: &V) -> &'static str {
	match v {
		V::Null => "null",
		V::Bool(_) => "bool",
		V::Int(_) => "int",
		V::Float(_) => "float",
		V::Str(_) => "str",
		V::Arr(_) => "array",
		V::Map(_) => "map",
		V::Bytes(_) => "bytes",
		V::F32(_) => "f32",
		V::Other(_) => "other",
	}
}

/// A root-cause oriented name for one differing leaf.
pub fn diff_class(got: &V, want: &V) -> String {
	match (got, want) {
		(V::Float(a), V::Float(b)) => {
			let d = (*a as i128 - *b as i128).abs();
			if d <= 4 {
				format!("float-off-by-{d}-ulp")
			} else {
				"float-differs".into()
			}
		}
		(V::Float(g), V::Str(s)) if f64::from_bits(*g).is_infinite() && overflowing_float_text(s) => "str-read-as-overflowing-float".into(),
		(V::Str(_), V::Str(_)) => "string-differs".into(),
		(V::Int(_), V::Int(_)) => "int-differs".into(),
		(V::Arr(a), V::Arr(b)) if a.len() != b.len() => "array-length-differs".into(),
		(V::Map(a), V::Map(b)) if a.len() != b.len() => "map-length-differs".into(),
		(g, w) => format!("{}-became-{}", kind_name(w), kind_name(g)),
	}
}

/// Text that the YAML 1.2 core schema resolves to a float whose value overflows binary64.
pub fn overflowing_float_text(s: &str) -> bool {
	match crate::yamlread::resolve_plain(s) {
		V::Float(b) => f64::from_bits(b).is_infinite() && !s.to_ascii_lowercase().contains("inf"),
		_ => false,
	}
}

// ------------------------------------------------------------------------------------------
// serde::Serialize for the model, so that a target crate's serializer can be driven directly
// by the harness (reference reasons for C11).
// ------------------------------------------------------------------------------------------

impl serde::Serialize for V {
	fn serialize<S: serde::Serializer>(&self, s: S) -> Result<S::Ok, S::Error> {
		use serde::ser::{SerializeMap, SerializeSeq};
		match self {
			V::Null => s.serialize_unit(),
			V::Bool(b) => s.serialize_bool(*b),
			V::Int(i) => {
				if *i >= 0 {
					s.serialize_u64(*i as u64)
				} else {
					s.serialize_i64(*i as i64)
				}
			}
			V::Float(b) => s.serialize_f64(f64::from_bits(*b)),
			V::F32(b) => s.serialize_f32(f32::from_bits(*b)),
			V::Str(x) => s.serialize_str(x),
			V::Bytes(b) => s.serialize_bytes(b),
			V::Other(x) => s.serialize_str(x),
			V::Arr(a) => {
				let mut q = s.serialize_seq(Some(a.len()))?;
				for x in a {
					q.serialize_element(x)?;
				}
				q.end()
			}
			V::Map(m) => {
				let mut q = s.serialize_map(Some(m.len()))?;
				for (k, x) in m {
					q.serialize_key(k)?;
					q.serialize_value(x)?;
				}
				q.end()
			}
		}
	}
}
