//! Small shared helpers: hex, hashing, parallel iteration.

use std::sync::atomic::{AtomicUsize, Ordering};

pub fn hex(b: &[u8]) -> String {
	let mut s = String::with_capacity(b.len() * 2);
	for x in b {
		s.push_str(&format!("{x:02x}"));
	}
	s
}

pub fn unhex(s: &str) -> Vec<u8> {
	let s: Vec<u8> = s.bytes().filter(|c| !c.is_ascii_whitespace()).collect();
	assert!(s.len() % 2 == 0, "odd hex length");
	s.chunks(2)
		.map(|p| u8::from_str_radix(std::str::from_utf8(p).unwrap(), 16).expect("bad hex"))
		.collect()
}

/// Printable rendering of bytes for samples / messages.
pub fn show(b: &[u8]) -> String {
	let mut s = String::new();
	for &c in b.iter().take(160) {
		match c {
			b'\n' => s.push_str("\\n"),
			b'\r' => s.push_str("\\r"),
			b'\t' => s.push_str("\\t"),
			b'\\' => s.push_str("\\\\"),
			0x20..=0x7e => s.push(c as char),
			_ => s.push_str(&format!("\\x{c:02x}")),
		}
	}
	if b.len() > 160 {
		s.push_str(&format!("…(+{} bytes)", b.len() - 160));
	}
	s
}

pub fn fnv(parts: &[&[u8]]) -> u64 {
	let mut h: u64 = 0xcbf29ce484222325;
	for p in parts {
		for &b in *p {
			h ^= u64::from(b);
			h = h.wrapping_mul(0x100000001b3);
		}
		h ^= 0xff;
		h = h.wrapping_mul(0x100000001b3);
	}
	h
}

pub fn threads() -> usize {
	std::env::var("XTMC_THREADS")
		.ok()
		.and_then(|s| s.parse().ok())
		.unwrap_or_else(|| std::thread::available_parallelism().map_or(8, |n| n.get()))
}

/// Runs `f(acc, index, item)` over all items on all cores; each worker owns one
/// accumulator created by `init`; the accumulators are returned for merging.
pub fn par_fold<T: Sync, A: Send>(
	items: &[T],
	init: impl Fn() -> A + Sync,
	f: impl Fn(&mut A, usize, &T) + Sync,
) -> Vec<A> {
	let next = AtomicUsize::new(0);
	let n = threads().min(items.len().max(1));
	let grain = (items.len() / (n * 64)).clamp(1, 256);
	std::thread::scope(|s| {
		let hs: Vec<_> = (0..n)
			.map(|_| {
				std::thread::Builder::new()
					.stack_size(64 << 20)
					.spawn_scoped(s, || {
						let mut acc = init();
						loop {
							let start = next.fetch_add(grain, Ordering::Relaxed);
							if start >= items.len() {
								break;
							}
							for i in start..(start + grain).min(items.len()) {
								f(&mut acc, i, &items[i]);
							}
						}
						acc
					})
					.unwrap()
			})
			.collect();
		hs.into_iter().map(|h| h.join().expect("worker thread panicked (machinery error)")).collect()
	})
}
