//! Helpers shared by several checks.

use serde_json::{json, Value};

use crate::env::{Env, EnvRef, ReadPolicy, SchedReader};
use crate::run::{fname, run_reader, run_slice, Outcome, F};
use crate::util::{hex, unhex};

/// Slice-vs-reader agreement in the sense of C02.
pub fn agree(a: &Outcome, b: &Outcome) -> bool {
	if a.panic.is_some() || b.panic.is_some() {
		return false;
	}
	if a.ok != b.ok {
		return false;
	}
	if a.ok {
		a.out == b.out
	} else {
		a.out.starts_with(&b.out) || b.out.starts_with(&a.out)
	}
}

pub fn xlate_case(input: &[u8], from: Option<F>, to: F, chunk: usize, choices: &[u16], sizes: bool, faults: bool) -> Value {
	json!({
		"kind": "xlate", "input_hex": hex(input), "input_text": crate::util::show(input),
		"from": fname(from), "to": to.name(), "policy_chunk": chunk, "choices": choices,
		"sizes": sizes, "faults": faults,
	})
}

pub struct XCase {
	pub input: Vec<u8>,
	pub from: Option<F>,
	pub to: F,
	pub chunk: usize,
	pub choices: Vec<u16>,
	pub sizes: bool,
	pub faults: bool,
}

pub fn parse_xlate(case: &Value) -> XCase {
	XCase {
		input: unhex(case["input_hex"].as_str().unwrap()),
		from: F::parse(case["from"].as_str().unwrap()),
		to: F::parse(case["to"].as_str().unwrap()).unwrap(),
		chunk: case["policy_chunk"].as_u64().unwrap_or(0) as usize,
		choices: case["choices"].as_array().map(|a| a.iter().map(|x| x.as_u64().unwrap() as u16).collect()).unwrap_or_default(),
		sizes: case["sizes"].as_bool().unwrap_or(true),
		faults: case["faults"].as_bool().unwrap_or(false),
	}
}

pub fn policy(chunk: usize, sizes: bool, faults: bool, marks: &std::rc::Rc<Vec<usize>>) -> ReadPolicy {
	ReadPolicy { chunk, faults, sizes, marks: marks.clone() }
}

pub fn newline_marks(input: &[u8]) -> std::rc::Rc<Vec<usize>> {
	let mut m: Vec<usize> = vec![];
	if input.len() > 16 {
		for (i, &b) in input.iter().enumerate() {
			if b == b'\n' {
				m.push(i + 1);
			}
		}
		let mut k = 8192;
		while k < input.len() {
			m.push(k);
			k += 8192;
		}
		m.sort_unstable();
		m.dedup();
	}
	std::rc::Rc::new(m)
}

/// Runs the reader path under a recorded schedule.
pub fn run_sched(input: &[u8], from: Option<F>, to: F, pol: ReadPolicy, choices: &[u16]) -> (Outcome, EnvRef) {
	let env = Env::new(choices.to_vec());
	let o = run_reader(SchedReader::new(input, &env, pol), from, to);
	(o, env)
}

pub fn slice(input: &[u8], from: Option<F>, to: F) -> Outcome {
	run_slice(input, from, to)
}

/// Reads xt's output in a streaming target format with the harness's own reader and returns the
/// canonical dumps of the documents (framing is checked too).
pub fn read_output_dumps(to: F, out: &[u8]) -> Result<Vec<String>, String> {
	Ok(read_output_values(to, out)?.iter().map(crate::model::V::dump).collect())
}

pub fn read_output_values(to: F, out: &[u8]) -> Result<Vec<crate::model::V>, String> {
	let docs = match to {
		F::Json => crate::model::read_json_lines(out)?,
		F::Msgpack => crate::model::read_msgpack_stream(out)?,
		F::Yaml => crate::yamlread::read_xt_yaml_output(out)?,
		F::Toml => return Err("TOML is read out of process".into()),
	};
	Ok(docs)
}

/// Classes (one per distinct root cause) and a short description of how `got` differs from `want`.
pub fn diff_classes(got: &[crate::model::V], want: &[crate::model::V]) -> Vec<(String, String)> {
	if got.len() != want.len() {
		return vec![("document-count-differs".into(), format!("{} documents, expected {}", got.len(), want.len()))];
	}
	let mut leaves = vec![];
	for (i, (g, w)) in got.iter().zip(want.iter()).enumerate() {
		crate::model::diff_leaves(g, w, &format!("doc{i}"), &mut leaves);
	}
	let mut out: Vec<(String, String)> = vec![];
	for (path, g, w) in leaves {
		let c = crate::model::diff_class(&g, &w);
		if !out.iter().any(|(k, _)| *k == c) {
			let (gd, wd) = (g.dump(), w.dump());
			out.push((c, format!("at {path}: got {} want {}", &gd[..gd.len().min(120)], &wd[..wd.len().min(120)])));
		}
	}
	out
}

#[derive(Clone, Copy, Debug, PartialEq, Eq, Hash)]
pub enum Mode {
	Slice,
	ReaderAll,
	Reader1,
	Reader3,
}

impl Mode {
	pub const ALL: [Mode; 4] = [Mode::Slice, Mode::ReaderAll, Mode::Reader1, Mode::Reader3];
	pub fn name(self) -> &'static str {
		match self {
			Mode::Slice => "slice",
			Mode::ReaderAll => "reader-all",
			Mode::Reader1 => "reader-1",
			Mode::Reader3 => "reader-3",
		}
	}
	pub fn parse(s: &str) -> Mode {
		match s {
			"slice" => Mode::Slice,
			"reader-1" => Mode::Reader1,
			"reader-3" => Mode::Reader3,
			_ => Mode::ReaderAll,
		}
	}
}

pub fn run_mode(input: &[u8], from: Option<F>, to: F, mode: Mode) -> Outcome {
	match mode {
		Mode::Slice => run_slice(input, from, to),
		Mode::ReaderAll => run_reader(crate::run::ChunkReader::new(input, 0), from, to),
		Mode::Reader1 => run_reader(crate::run::ChunkReader::new(input, 1), from, to),
		Mode::Reader3 => run_reader(crate::run::ChunkReader::new(input, 3), from, to),
	}
}

pub fn model_case(input: &[u8], from: Option<F>, to: F, mode: Mode, expected: &[String]) -> Value {
	json!({
		"kind": "model", "input_hex": hex(input), "input_text": crate::util::show(input), "from": fname(from),
		"to": to.name(), "mode": mode.name(), "expected_dumps": expected,
	})
}

/// Replays a model case for a streaming target: Some(detail) when the output does not read back as expected.
pub fn replay_model(case: &Value) -> Option<String> {
	let input = unhex(case["input_hex"].as_str().unwrap());
	let from = F::parse(case["from"].as_str().unwrap());
	let to = F::parse(case["to"].as_str().unwrap()).unwrap();
	let mode = Mode::parse(case["mode"].as_str().unwrap());
	let expected: Vec<String> = case["expected_dumps"].as_array().unwrap().iter().map(|x| x.as_str().unwrap().to_string()).collect();
	let o = run_mode(&input, from, to, mode);
	if !o.ok {
		return Some(format!("translation failed: {}", o.brief()));
	}
	if to == F::Toml {
		let mut b = crate::tomlcheck::TomlBatch::default();
		b.push(expected.first().cloned(), o.out.clone(), String::new(), Value::Null);
		let (_, bad) = b.run("replay");
		return bad.first().map(|(_, r)| format!("TOML output {}: {r}", crate::util::show(&o.out)));
	}
	match read_output_dumps(to, &o.out) {
		Err(e) => Some(format!("output {} unreadable: {e}", crate::util::show(&o.out))),
		Ok(d) if d != expected => Some(format!("output {} reads as {:?}, expected {:?}", crate::util::show(&o.out), d, expected)),
		Ok(_) => None,
	}
}

/// Explanation test of the known finding "toml-nested-array-of-tables-before-tables": the value read
/// back differs from the expected one exactly by the `toml` crate's observed ordering inside nested tables.
pub fn explained_by_toml_nested_order(got: &crate::model::V, want_reordered: &crate::model::V) -> bool {
	// `want_reordered` is already the stable non-table-first partition; applying the observed rule on
	// top of it must give exactly what was read back, and the two must differ
	got.dump() != want_reordered.dump() && got.dump() == want_reordered.toml_reordered_as_observed(true).dump()
}
