//! Helpers shared by several checks.

use serde_json::{json, Value};

use crate::env::{Env, EnvRef, ReadPolicy, SchedReader};
use crate::run::{fname, run_reader, run_slice, Outcome, F};
use crate::util::{hex, unhex};

/// Slice-vs-reader agreement in the sense of C02.
pub fn agree(a: &Outcome, b: &Outcome) -> bool {
	if a.panic.is_some() || b.panic.is_some() {
		return false;
	}
	if a.ok != b.ok {
		return false;
	}
	if a.ok {
		a.out == b.out
	} else {
		a.out.starts_with(&b.out) || b.out.starts_with(&a.out)
	}
}

pub fn xlate_case(input: &[u8], from: Option<F>, to: F, chunk: usize, choices: &[u16], sizes: bool, faults: bool) -> Value {
	json!({
		"kind": "xlate", "input_hex": hex(input), "input_text": crate::util::show(input),
		"from": fname(from), "to": to.name(), "policy_chunk": chunk, "choices": choices,
		"sizes": sizes, "faults": faults,
	})
}

pub struct XCase {
	pub input: Vec<u8>,
	pub from: Option<F>,
	pub to: F,
	pub chunk: usize,
	pub choices: Vec<u16>,
	pub sizes: bool,
	pub faults: bool,
}

pub fn parse_xlate(case: &Value) -> XCase {
	XCase {
		input: unhex(case["input_hex"].as_str().unwrap()),
		from: F::parse(case["from"].as_str().unwrap()),
		to: F::parse(case["to"].as_str().unwrap()).unwrap(),
		chunk: case["policy_chunk"].as_u64().unwrap_or(0) as usize,
		choices: case["choices"].as_array().map(|a| a.iter().map(|x| x.as_u64().unwrap() as u16).collect()).unwrap_or_default(),
		sizes: case["sizes"].as_bool().unwrap_or(true),
		faults: case["faults"].as_bool().unwrap_or(false),
	}
}

pub fn policy(chunk: usize, sizes: bool, faults: bool, marks: &std::rc::Rc<Vec<usize>>) -> ReadPolicy {
	ReadPolicy { chunk, faults, sizes, marks: marks.clone() }
}

pub fn newline_marks(input: &[u8]) -> std::rc::Rc<Vec<usize>> {
	let mut m: Vec<usize> = vec![];
	if input.len() > 16 {
		for (i, &b) in input.iter().enumerate() {
			if b == b'\n' {
				m.push(i + 1);
			}
		}
		let mut k = 8192;
		while k < input.len() {
			m.push(k);
			k += 8192;
		}
		m.sort_unstable();
		m.dedup();
	}
	std::rc::Rc::new(m)
}

/// Runs the reader path under a recorded schedule.
pub fn run_sched(input: &[u8], from: Option<F>, to: F, pol: ReadPolicy, choices: &[u16]) -> (Outcome, EnvRef) {
	let env = Env::new(choices.to_vec());
	let o = run_reader(SchedReader::new(input, &env, pol), from, to);
	(o, env)
}

pub fn slice(input: &[u8], from: Option<F>, to: F) -> Outcome {
	run_slice(input, from, to)
}
