//! C07 — YAML in UTF-16/UTF-32 translates exactly like the same text in UTF-8.

use std::io::{BufRead, Read};
use std::panic::{catch_unwind, AssertUnwindSafe};

use serde_json::{json, Value};

use super::c01::encode_text;
use super::common::*;
use crate::env::{explore, SchedReader};
use crate::model::V;
use crate::report::{CheckOutput, Ctx, Tally};
use crate::run::{detect_slice, run_reader, run_slice, ChunkReader, F};
use crate::spell::{spell_doc, spell_stream, Style};
use crate::util::{fnv, hex, par_fold, show, unhex};
use crate::vals;

/// A BufRead whose fill_buf exposes at most `chunk` bytes at a time.
struct ChunkBuf<'a> {
	data: &'a [u8],
	pos: usize,
	end: usize,
	chunk: usize,
}

impl<'a> ChunkBuf<'a> {
	fn new(data: &'a [u8], chunk: usize) -> Self {
		ChunkBuf { data, pos: 0, end: 0, chunk }
	}
}

impl Read for ChunkBuf<'_> {
	fn read(&mut self, buf: &mut [u8]) -> std::io::Result<usize> {
		let avail = self.fill_buf()?;
		let n = avail.len().min(buf.len());
		buf[..n].copy_from_slice(&avail[..n]);
		self.consume(n);
		Ok(n)
	}
}

impl BufRead for ChunkBuf<'_> {
	fn fill_buf(&mut self) -> std::io::Result<&[u8]> {
		if self.pos == self.end {
			self.end = (self.pos + self.chunk).min(self.data.len());
		}
		Ok(&self.data[self.pos..self.end])
	}
	fn consume(&mut self, n: usize) {
		self.pos += n;
	}
}

/// Drives xt's re-encoder (hook) over `input`; the consumer asks for `sizes` bytes cyclically.
/// Returns the bytes produced and the error text if it stopped with an error (or a panic).
fn reencode(input: &[u8], src_chunk: usize, sizes: &[usize]) -> (Vec<u8>, Option<String>) {
	let r = catch_unwind(AssertUnwindSafe(|| {
		let mut out = vec![];
		let mut rd = match xt::verif::yaml_reencode(ChunkBuf::new(input, src_chunk)) {
			Ok(r) => r,
			Err(e) => return (out, Some(e.to_string())),
		};
		let mut i = 0;
		let mut buf = vec![0u8; *sizes.iter().max().unwrap()];
		loop {
			let want = sizes[i % sizes.len()];
			i += 1;
			match rd.read(&mut buf[..want]) {
				Ok(0) => return (out, None),
				Ok(n) => out.extend_from_slice(&buf[..n]),
				Err(e) => return (out, Some(e.to_string())),
			}
		}
	}));
	match r {
		Ok(x) => x,
		Err(_) => (vec![], Some(format!("PANIC: {}", crate::run::take_panic().unwrap_or_default()))),
	}
}

pub const ENC_NAMES: [&str; 8] = ["utf16le", "utf16be+bom", "utf32be", "utf32le+bom", "utf16le+bom", "utf16be", "utf32be+bom", "utf32le"];

/// 8 encodings: (16/32, endianness, BOM)
pub fn encode8(text: &str, enc: usize) -> Vec<u8> {
	match enc {
		0..=3 => encode_text(text, enc as u32),
		4 => {
			let mut v = vec![0xFF, 0xFE];
			v.extend(encode_text(text, 0));
			v
		}
		5 => text.encode_utf16().flat_map(u16::to_be_bytes).collect(),
		6 => {
			let mut v = vec![0, 0, 0xFE, 0xFF];
			v.extend(encode_text(text, 2));
			v
		}
		_ => text.chars().flat_map(|c| (c as u32).to_le_bytes()).collect(),
	}
}

fn enc_case(kind: &str, input: &[u8], extra: Value) -> Value {
	json!({"kind": kind, "input_hex": if input.len() <= 4096 { hex(input) } else { String::new() }, "input_len": input.len(), "extra": extra})
}

#[derive(Clone)]
enum Job {
	/// all scalars in [lo, hi) after a leading 'a', encoding, source chunk, consumer sizes
	Scalars { lo: u32, hi: u32, enc: usize, src_chunk: usize, sizes: Vec<usize> },
	/// 4-character sequences over the UTF-8 length classes x consumer read patterns
	StateProduct { enc: usize },
	/// ill-formed UTF-16: first unit range x second-unit alphabet
	Ill16 { lo: u32, hi: u32, big_endian: bool },
	/// UTF-32 values
	Ill32 { lo: u32, hi: u32, big_endian: bool },
	Detect,
	EndToEnd { text: String, label: String },
}

fn scalars_text(lo: u32, hi: u32) -> String {
	// two leading ASCII characters: a NUL directly after the first character would make a BOM-less
	// UTF-16 stream indistinguishable from UTF-32 (and NUL is not YAML content anyway)
	let mut s = String::from("ab");
	for u in lo..hi {
		if let Some(c) = char::from_u32(u) {
			// U+FEFF directly after the leading character is ordinary content; keep it
			s.push(c);
		}
	}
	s
}

fn run_job(t: &mut Tally, job: &Job, d: usize) {
	match job {
		Job::Scalars { lo, hi, enc, src_chunk, sizes } => {
			let text = scalars_text(*lo, *hi);
			let input = encode8(&text, *enc);
			let (out, err) = reencode(&input, *src_chunk, sizes);
			t.evaluations += 1;
			t.add("scalars:characters-checked", text.chars().count() as u64);
			t.nontrivial(fnv(&[&lo.to_le_bytes(), &[*enc as u8], &src_chunk.to_le_bytes(), &sizes.len().to_le_bytes(), &sizes[0].to_le_bytes()]));
			if err.is_some() || out != text.as_bytes() {
				let at = out.iter().zip(text.as_bytes()).position(|(a, b)| a != b).unwrap_or(out.len().min(text.len()));
				t.bad(format!("reencode-differs:{}", ENC_NAMES[*enc]), enc_case("scalars", &[], json!({"lo": lo, "hi": hi, "enc": enc, "src_chunk": src_chunk, "sizes": sizes})),
					format!("scalars U+{lo:04X}..U+{hi:04X} as {} (source chunk {src_chunk}, consumer reads {sizes:?}): err={err:?}, {} bytes vs {} expected, first difference at UTF-8 offset {at}", ENC_NAMES[*enc], out.len(), text.len()));
			}
		}
		Job::StateProduct { enc } => {
			let reps = ['a', 'é', '€', '😀'];
			let pats: Vec<Vec<usize>> = {
				let szs = [1usize, 2, 3, 4, 5, 7, 12];
				let mut v: Vec<Vec<usize>> = szs.iter().map(|&a| vec![a]).collect();
				for &a in &szs {
					for &b in &szs {
						v.push(vec![a, b]);
						for &c in &szs {
							v.push(vec![a, b, c]);
						}
					}
				}
				v
			};
			for code in 0..256usize {
				let text: String = std::iter::once('k').chain((0..4).map(|i| reps[(code >> (2 * i)) & 3])).collect();
				let input = encode8(&text, *enc);
				for p in &pats {
					for src_chunk in [1usize, 3, 4096] {
						let (out, err) = reencode(&input, src_chunk, p);
						t.evaluations += 1;
						if err.is_some() || out != text.as_bytes() {
							t.bad(format!("reencode-state-product:{}", ENC_NAMES[*enc]), enc_case("state", &input, json!({"text": text, "enc": enc, "src_chunk": src_chunk, "sizes": p})),
								format!("'{text}' as {} (source chunk {src_chunk}, consumer reads {p:?}): err={err:?} out={}", ENC_NAMES[*enc], show(&out)));
						}
					}
				}
			}
			t.count("state-product:encodings");
		}
		Job::Ill16 { lo, hi, big_endian } => {
			let seconds: [Option<u32>; 11] = [Some(0x0000), Some(0x0041), Some(0xD7FF), Some(0xD800), Some(0xDBFF), Some(0xDC00), Some(0xDFFF), Some(0xE000), Some(0xFFFF), None, Some(0x1_0000) /* odd trailing byte */];
			for u1 in *lo..*hi {
				for s in seconds {
					let mut units: Vec<u16> = vec![0xFEFF, 0x0061, u1 as u16];
					let mut trailing_byte = false;
					match s {
						Some(0x1_0000) => trailing_byte = true,
						Some(x) => units.push(x as u16),
						None => {}
					}
					let mut input: Vec<u8> = units.iter().flat_map(|u| if *big_endian { u.to_be_bytes() } else { u.to_le_bytes() }).collect();
					if trailing_byte {
						input.push(0x41);
					}
					// reference: std's decoder over the units after the BOM
					let mut want = String::new();
					let mut well_formed = !trailing_byte;
					for r in char::decode_utf16(units[1..].iter().copied()) {
						match r {
							Ok(c) => want.push(c),
							Err(_) => {
								well_formed = false;
								break;
							}
						}
					}
					for sizes in [&[4096usize][..], &[1], &[2], &[3], &[5, 1]] {
					let (out, err) = reencode(&input, if sizes[0] == 4096 { 4096 } else { 3 }, sizes);
					t.evaluations += 1;
					let bad = if well_formed {
						(err.is_some() || out != want.as_bytes()).then(|| format!("well-formed input gave err={err:?} out={}", show(&out)))
					} else if err.is_none() {
						Some(format!("ill-formed input was accepted, producing {}", show(&out)))
					} else if err.as_ref().is_some_and(|e| e.starts_with("PANIC")) {
						Some(format!("panic: {err:?}"))
					} else if !want.as_bytes().starts_with(&out) {
						Some(format!("characters were fabricated before the error: {} (well-formed prefix is {})", show(&out), show(want.as_bytes())))
					} else {
						None
					};
					if let Some(msg) = bad {
						t.bad(format!("utf16-ill-formed:{}", if *big_endian { "be" } else { "le" }), enc_case("ill16", &input, json!({"sizes": sizes})), format!("UTF-16{} units {:04X?}{} (consumer reads {sizes:?}): {msg}", if *big_endian { "BE" } else { "LE" }, &units[1..], if trailing_byte { " + 1 byte" } else { "" }));
					}
					}
				}
			}
			t.count("ill16:ranges");
		}
		Job::Ill32 { lo, hi, big_endian } => {
			for v in *lo..*hi {
				let mut input: Vec<u8> = if *big_endian { vec![0, 0, 0xFE, 0xFF, 0, 0, 0, 0x61] } else { vec![0xFF, 0xFE, 0, 0, 0x61, 0, 0, 0] };
				input.extend(if *big_endian { v.to_be_bytes() } else { v.to_le_bytes() });
				for sizes in [&[4096usize][..], &[1], &[3]] {
				let (out, err) = reencode(&input, 4096, sizes);
				t.evaluations += 1;
				let want: Option<String> = char::from_u32(v).map(|c| format!("a{c}"));
				let bad = match &want {
					Some(w) => (err.is_some() || out != w.as_bytes()).then(|| format!("valid scalar gave err={err:?} out={}", show(&out))),
					None => {
						if err.is_none() {
							Some(format!("invalid value accepted, producing {}", show(&out)))
						} else if !b"a".starts_with(&out) {
							Some(format!("characters fabricated before the error: {}", show(&out)))
						} else {
							None
						}
					}
				};
				if let Some(msg) = bad {
					t.bad(format!("utf32-value:{}", if *big_endian { "be" } else { "le" }), enc_case("ill32", &input, json!({"sizes": sizes})), format!("UTF-32{} value 0x{v:X} (consumer reads {sizes:?}): {msg}", if *big_endian { "BE" } else { "LE" }));
				}
				}
			}
			// truncated code units and large values
			for j in 0..=32u32 {
				for v in [(1u64 << j) as u32, ((1u64 << j) - 1) as u32] {
					for cut in 1..=3usize {
						let mut input: Vec<u8> = if *big_endian { vec![0, 0, 0xFE, 0xFF, 0, 0, 0, 0x61] } else { vec![0xFF, 0xFE, 0, 0, 0x61, 0, 0, 0] };
						let b = if *big_endian { v.to_be_bytes() } else { v.to_le_bytes() };
						input.extend(&b[..cut]);
						let (out, err) = reencode(&input, 4096, &[4096]);
						t.evaluations += 1;
						if err.is_none() || !b"a".starts_with(&out) {
							t.bad("utf32-truncated-unit-accepted", enc_case("ill32", &input, json!({})), format!("UTF-32 stream ending in a {cut}-byte fragment: err={err:?} out={}", show(&out)));
						}
					}
				}
			}
			t.count("ill32:ranges");
		}
		Job::Detect => {
			let seconds = ['b', '\u{7f}', '\u{80}', 'é', '\u{100}', '\u{fe}', '\u{ff}', '\u{feff}', '\u{fffe}', '€', '\u{d7ff}', '\u{e000}', '😀', '\u{10000}', '\u{10ffff}'];
			for first in 1u8..=0x7f {
				for second in std::iter::once(None).chain(seconds.iter().map(Some)) {
					let mut text = String::new();
					text.push(first as char);
					if let Some(c) = second {
						text.push(*c);
					}
					for enc in 0..8 {
						let bytes = encode8(&text, enc);
						let got = xt::verif::yaml_detect_encoding(&bytes[..bytes.len().min(4)]);
						let want = ENC_NAMES[enc].trim_end_matches("+bom");
						t.evaluations += 1;
						if got != want {
							t.bad("encoding-detection", enc_case("detect", &bytes, json!({"text": text, "enc": ENC_NAMES[enc]})), format!("text {text:?} encoded as {} ({}) detected as {got}", ENC_NAMES[enc], hex(&bytes)));
						}
					}
					let got = xt::verif::yaml_detect_encoding(&text.as_bytes()[..text.len().min(4)]);
					if got != "utf8" {
						t.bad("encoding-detection", enc_case("detect", text.as_bytes(), json!({"text": text, "enc": "utf8"})), format!("UTF-8 text {text:?} detected as {got}"));
					}
				}
			}
			t.count("detect:tables");
		}
		Job::EndToEnd { text, label } => {
			let utf8 = text.as_bytes();
			for to in [F::Json, F::Yaml] {
				let base = run_slice(utf8, Some(F::Yaml), to);
				let base_detect = detect_slice(utf8);
				for enc in 0..8 {
					let input = encode8(text, enc);
					let case = |mode: &str, choices: &[u16]| json!({"kind": "end-to-end", "text": text, "enc": enc, "to": to.name(), "mode": mode, "choices": choices});
					let s = run_slice(&input, Some(F::Yaml), to);
					t.evaluations += 1;
					t.nontrivial(fnv(&[&input, to.name().as_bytes()]));
					if s.ok != base.ok || (s.ok && s.out != base.out) || s.panic.is_some() {
						t.bad(format!("utf16/32-differs-from-utf8:slice:{}", ENC_NAMES[enc]), case("slice", &[]), format!("{label} as {} from a slice -> {}: {} | UTF-8: {}", ENC_NAMES[enc], to.name(), s.brief(), base.brief()));
					}
					// readers: cuts inside code units and surrogate pairs
					let marks = std::rc::Rc::new(vec![]);
					for chunk in [0usize, 1, 3, 7] {
						let pol = policy(chunk, true, false, &marks);
						let dd = if input.len() > 200 || chunk != 0 { 0 } else { d };
						let st = explore(dd, 300, |env| {
							let r = run_reader(SchedReader::new(&input, env, pol.clone()), Some(F::Yaml), to);
							t.evaluations += 1;
							if r.ok != base.ok || (r.ok && r.out != base.out) || r.panic.is_some() {
								let choices = env.borrow().choices();
								t.bad(format!("utf16/32-differs-from-utf8:reader:{}", ENC_NAMES[enc]), case(&format!("reader-{chunk}"), &choices), format!("{label} as {} from a reader (chunk {chunk}, choices {choices:?}) -> {}: {} | UTF-8: {}", ENC_NAMES[enc], to.name(), r.brief(), base.brief()));
							}
						});
						t.states += st.runs;
						t.transitions += st.points;
						t.traces += st.runs;
					}
					// detection: the encoded stream is detected like the UTF-8 one
					if to == F::Json {
						let ds = detect_slice(&input);
						let dr = crate::run::detect_reader(ChunkReader::new(&input, 3));
						t.evaluations += 2;
						if base_detect != Ok(Some(F::Yaml)) {
							// text that an earlier trial (JSON, as UTF-8) claims: only YAML knows UTF-16/32, nothing to compare
							t.count("end-to-end:utf8-text-not-detected-as-yaml");
						} else if ds != base_detect || dr != base_detect {
							t.bad(format!("utf16/32-detected-differently:{}", ENC_NAMES[enc]), case("detect", &[]), format!("{label} as {}: detected {ds:?} (slice) / {dr:?} (reader), the UTF-8 text is detected as {base_detect:?}", ENC_NAMES[enc]));
						} else if base_detect == Ok(Some(F::Yaml)) {
							let a = run_slice(&input, None, to);
							let b = run_reader(ChunkReader::new(&input, 5), None, to);
							if a.ok != base.ok || a.out != base.out || b.ok != base.ok || b.out != base.out {
								t.bad(format!("utf16/32-differs-from-utf8:detected:{}", ENC_NAMES[enc]), case("detected", &[]), format!("{label} as {} with detection: {} / {} | UTF-8: {}", ENC_NAMES[enc], a.brief(), b.brief(), base.brief()));
							}
						}
					}
				}
			}
			t.count("end-to-end:texts");
		}
	}
}

pub fn texts(thorough: bool) -> Vec<(String, String)> {
	let mut out: Vec<(String, String)> = vec![];
	let mut add = |b: Vec<u8>, label: &str| {
		if let Ok(s) = String::from_utf8(b) {
			out.push((s, label.to_string()));
		}
	};
	// ASCII-only and non-ASCII trees in several styles
	let trees = vals::trees(if thorough { 4 } else { 3 }, &[V::Int(1), V::s("a"), V::s("é€😀"), V::Null], &["a", "b", "ü"]);
	for t in &trees {
		for st in [0u32, 1, 3, 4, 5] {
			if let Some(b) = spell_doc(F::Yaml, t, Style(st)) {
				add(b, "tree");
			}
		}
	}
	for s in vals::string_family() {
		for st in [2u32, 3] {
			if let Some(b) = spell_doc(F::Yaml, &V::map(vec![("k", V::s(&s))]), Style(st)) {
				add(b, "string-family");
			}
		}
	}
	// multi-document streams
	let docs = vec![V::map(vec![("a", V::Int(1))]), V::Arr(vec![V::s("x"), V::s("😀")]), V::s("scalar"), V::Null];
	for sep in 0..4 {
		if let Some(b) = spell_stream(F::Yaml, &docs, Style(0), sep) {
			add(b, "multi-document");
		}
	}
	// all scalars, 512 per document (raw in flow style)
	for (i, chunk) in vals::all_scalar_strings(64).chunks(8).enumerate() {
		if thorough || i % 16 == 0 {
			if let Some(b) = spell_doc(F::Yaml, &V::Arr(chunk.iter().map(|s| V::s(s)).collect()), Style(3)) {
				add(b, "all-scalars");
			}
		}
	}
	// characters across the parser's and the BufReader's buffer edges (in re-encoded UTF-8 terms)
	for boundary in [8192usize, 16384, 24576] {
		for ch in ["é", "€", "😀"] {
			for align in 0..ch.len() {
				let mut s = format!("k: \"{}", "p".repeat(boundary - 60 + align));
				for _ in 0..40 {
					s.push_str(ch);
				}
				s.push_str(&"q".repeat(if thorough { 20000 } else { 9000 }));
				s.push_str("\"\n");
				out.push((s, "buffer-straddle".into()));
			}
		}
	}
	for s in ["a: 1\n", "- x\n- y\n", "# comment\nk: v\n", "--- \"only ascii\"\n", "%YAML 1.2\n---\n[1, 2]\n", "a: |\n  literal\n  text\n", "x: 'single'\n---\ny: \"dq\\n\"\n"] {
		out.push((s.to_string(), "ascii-only".into()));
	}
	out
}

pub fn run(ctx: &Ctx) -> CheckOutput {
	let thorough = ctx.thorough();
	let d = 1;
	let mut jobs: Vec<Job> = vec![];
	// (a) every scalar value
	let step = 0x2000u32;
	let consumer_sizes: Vec<Vec<usize>> = if thorough {
		(1..=9).map(|x| vec![x]).chain((4093..=4099).map(|x| vec![x])).chain([vec![1, 2, 3], vec![4, 1], vec![3, 5, 2]]).collect()
	} else {
		vec![vec![1], vec![2], vec![3], vec![4], vec![5], vec![7], vec![4095], vec![4096], vec![4097], vec![1, 2, 3], vec![3, 5, 2]]
	};
	for lo in (0..0x110000u32).step_by(step as usize) {
		for enc in 0..8 {
			for sizes in &consumer_sizes {
				jobs.push(Job::Scalars { lo, hi: lo + step, enc, src_chunk: 4096, sizes: sizes.clone() });
			}
			for src_chunk in [1usize, 2, 3, 5, 7] {
				jobs.push(Job::Scalars { lo, hi: lo + step, enc, src_chunk, sizes: vec![4096] });
				if thorough {
					jobs.push(Job::Scalars { lo, hi: lo + step, enc, src_chunk, sizes: vec![3] });
				}
			}
		}
	}
	for enc in 0..8 {
		jobs.push(Job::StateProduct { enc });
	}
	for lo in (0..0x10000u32).step_by(0x800) {
		for be in [false, true] {
			jobs.push(Job::Ill16 { lo, hi: lo + 0x800, big_endian: be });
		}
	}
	for lo in (0..0x120000u32).step_by(0x4000) {
		for be in [false, true] {
			jobs.push(Job::Ill32 { lo, hi: lo + 0x4000, big_endian: be });
		}
	}
	jobs.push(Job::Detect);
	for (text, label) in texts(thorough) {
		jobs.push(Job::EndToEnd { text, label });
	}
	let tallies = par_fold(&jobs, Tally::default, |t, idx, job| {
		run_job(t, job, d);
		if idx % 1999 == 0 {
			t.sample(6, || match job {
				Job::Scalars { lo, hi, enc, src_chunk, sizes } => json!({"scalars": format!("U+{lo:04X}..U+{hi:04X}"), "encoding": ENC_NAMES[*enc], "source_chunk": src_chunk, "consumer_reads": sizes}),
				Job::EndToEnd { text, label } => json!({"end_to_end": label, "text": show(text.as_bytes())}),
				Job::Ill16 { lo, hi, .. } => json!({"ill_formed_utf16_first_units": format!("{lo:04X}..{hi:04X}")}),
				Job::Ill32 { lo, hi, .. } => json!({"utf32_values": format!("{lo:X}..{hi:X}")}),
				_ => json!("state product / detection table"),
			});
		}
	});
	let tally = Tally::merge_all(tallies);
	let req = |k: &str| (k.to_string(), *tally.counters.get(k).unwrap_or(&0));
	let required = vec![req("scalars:characters-checked"), req("state-product:encodings"), req("ill16:ranges"), req("ill32:ranges"), req("detect:tables"), req("end-to-end:texts")];
	CheckOutput {
		level: "exploration",
		tally,
		rule: "re-encoder alone (hook yaml_reencode): (a) EVERY Unicode scalar value (1,112,064; blocks of 8192 after a leading 'a') in UTF-16LE/BE and UTF-32LE/BE with and without BOM must re-encode to exactly its UTF-8 for consumer read sizes {1,2,3,4,5,7,4095,4096,4097 and mixed patterns} and source BufRead chunk sizes {1,2,3,5,7,4096}; (b) all 256 four-character sequences over the UTF-8 length classes x all consumer read patterns of length <= 3 over {1,2,3,4,5,7,12} x source chunks {1,3,4096} x 8 encodings; (c) ill-formed input: all 65,536 first UTF-16 units x 11 continuations (both byte orders), every UTF-32 value 0..0x11FFFF and 2^j / 2^j-1 fragments: well-formed => exact UTF-8, ill-formed => an error and nothing fabricated before it, for consumer read sizes {4096, 1, 2, 3, mixed} (reference: std's char::decode_utf16 / char::from_u32); (d) Encoding::detect on every stream that starts with a BOM or with each of the 127 ASCII characters followed by 15 second characters, in 9 encodings. End to end: YAML texts (all small trees in 5 styles, string family, multi-document streams, all scalars, ASCII-only texts, characters across 8/16/24 KiB buffer edges) in 8 encodings x slice / reader (chunks all,1,3,7 and <= 1 deviation) x explicit / detected: verdict and output identical to the UTF-8 run.".into(),
		exhaustive: true,
		bounds: json!({"deviations": d}),
		assumptions: vec!["std's UTF-16/UTF-32 decoding (char::decode_utf16, char::from_u32) is the reference for well-formedness".into()],
		required,
		extra: Default::default(),
	}
}

pub fn replay(case: &Value) -> Option<String> {
	let mut t = Tally::default();
	let e = &case["extra"];
	let job = match case["kind"].as_str().unwrap_or("") {
		"scalars" => Job::Scalars {
			lo: e["lo"].as_u64().unwrap() as u32,
			hi: e["hi"].as_u64().unwrap() as u32,
			enc: e["enc"].as_u64().unwrap() as usize,
			src_chunk: e["src_chunk"].as_u64().unwrap() as usize,
			sizes: e["sizes"].as_array().unwrap().iter().map(|x| x.as_u64().unwrap() as usize).collect(),
		},
		"end-to-end" => Job::EndToEnd { text: case["text"].as_str().unwrap().to_string(), label: "replay".into() },
		"state" => Job::StateProduct { enc: e["enc"].as_u64().unwrap() as usize },
		"detect" => Job::Detect,
		"ill16" | "ill32" => {
			let input = unhex(case["input_hex"].as_str().unwrap());
			let (out, err) = reencode(&input, 4096, &[4096]);
			return Some(format!("re-encoding {} gives err={err:?} out={} (re-run the check for the verdict)", hex(&input), show(&out)));
		}
		_ => return Some("unknown case".into()),
	};
	run_job(&mut t, &job, 1);
	t.bad.into_iter().next().map(|(_, (_, b))| b.detail)
}
