//! C13 — CLI exit status and stream discipline. (I): all argument vectors up to a length bound over a
//! vocabulary x stdin contents x stdout kinds, against a boring reference model of the command line.

use std::cell::RefCell;
use std::path::Path;

use serde_json::{json, Value};

use crate::proc::{self, Exit, ProcOut, Spawn, Stdin, Stdout, WorkDir};
use crate::report::{CheckOutput, Ctx, Tally};
use crate::run::{guarded, SharedBuf, F};
use crate::util::{fnv, par_fold, show};

pub const GOOD_JSON: &[u8] = b"{\"a\":1,\"b\":[true,null]}\n";
pub const GOOD_YAML: &[u8] = b"k: v\nlist:\n  - 1\n  - 2\n";
pub const GOOD_TOML: &[u8] = b"t = 1\n[s]\nu = \"v\"\n";
pub const GOOD_MSGPACK: &[u8] = b"\x82\xa1m\x01\xa1n\x92\x02\x03";
pub const BAD_JSON: &[u8] = b"{\"a\": tru}\n";
pub const UNDETECTABLE: &[u8] = b"\x00\x01\x02 not any format @@@ {{{\n";
pub const NULL_JSON: &[u8] = b"{\"n\":null}\n";

pub fn fixtures(w: &WorkDir) {
	w.write("good.json", GOOD_JSON);
	w.write("good.yaml", GOOD_YAML);
	w.write("good.toml", GOOD_TOML);
	w.write("good.msgpack", GOOD_MSGPACK);
	w.write("bad.json", BAD_JSON);
	w.write("undetectable", UNDETECTABLE);
	w.write("null.json", NULL_JSON);
	std::fs::create_dir_all(w.path().join("dir")).unwrap();
}

/// What the reference model derives from an argument vector.
#[derive(Debug, Clone, Default)]
pub struct Parsed {
	pub invalid: bool,
	pub asks_help: bool,
	pub from: Option<F>,
	pub to: Option<F>,
	pub inputs: Vec<String>,
}

/// Conventional Unix option parsing as documented in doc/xt.1: -f FORMAT, -t FORMAT (attached,
/// detached or with '='), -h, --help, -V, --version, '--', '-' for standard input.
pub fn parse_argv(argv: &[&str]) -> Parsed {
	let mut p = Parsed::default();
	let mut i = 0;
	let mut positional_only = false;
	while i < argv.len() {
		let a = argv[i];
		if positional_only || a == "-" || !a.starts_with('-') {
			p.inputs.push(a.to_string());
			i += 1;
			continue;
		}
		if a == "--" {
			positional_only = true;
			i += 1;
			continue;
		}
		if let Some(long) = a.strip_prefix("--") {
			let (name, val) = match long.split_once('=') {
				Some((n, v)) => (n, Some(v)),
				None => (long, None),
			};
			match name {
				"help" | "version" => {
					p.asks_help = true;
					if val.is_some() {
						p.invalid = true;
					}
				}
				_ => p.invalid = true,
			}
			i += 1;
			continue;
		}
		let chars: Vec<char> = a[1..].chars().collect();
		let mut j = 0;
		while j < chars.len() {
			let c = chars[j];
			match c {
				'f' | 't' => {
					let rest: String = chars[j + 1..].iter().collect();
					let val: Option<String> = if !rest.is_empty() {
						Some(rest.strip_prefix('=').unwrap_or(&rest).to_string())
					} else if i + 1 < argv.len() {
						i += 1;
						Some(argv[i].to_string())
					} else {
						None
					};
					let fmt = val.as_deref().and_then(|v| match v {
						"j" | "json" => Some(F::Json),
						"m" | "msgpack" => Some(F::Msgpack),
						"t" | "toml" => Some(F::Toml),
						"y" | "yaml" => Some(F::Yaml),
						_ => None,
					});
					let slot = if c == 'f' { &mut p.from } else { &mut p.to };
					if slot.is_some() || fmt.is_none() {
						p.invalid = true;
					}
					if slot.is_none() {
						*slot = fmt;
					}
					break;
				}
				'h' | 'V' => {
					p.asks_help = true;
					j += 1;
				}
				_ => {
					p.invalid = true;
					j += 1;
				}
			}
		}
		i += 1;
	}
	p
}

pub fn ext_format(name: &str) -> Option<F> {
	let base = name.rsplit('/').next().unwrap_or(name);
	// std::path::Path::extension semantics: none for names without a dot or starting with the only dot
	let ext = Path::new(base).extension()?.to_str()?.to_ascii_lowercase();
	match ext.as_str() {
		"json" => Some(F::Json),
		"msgpack" => Some(F::Msgpack),
		"toml" => Some(F::Toml),
		"yaml" | "yml" => Some(F::Yaml),
		_ => None,
	}
}

/// The library's verdict for a list of inputs: bytes produced (including partial output of a failing
/// input), bytes produced by the inputs that completed, index of the failing input.
pub struct LibRun {
	pub bytes: Vec<u8>,
	pub complete: Vec<u8>,
	pub failed_at: Option<usize>,
}

pub fn library_run(dir: &Path, inputs: &[String], from: Option<F>, to: F, stdin: &[u8]) -> LibRun {
	let buf = RefCell::new(Vec::new());
	let mut tr = xt::Translator::new(SharedBuf(&buf), to.xt());
	let mut complete: Vec<u8> = Vec::new();
	let mut failed_at = None;
	let mut stdin_used = false;
	let list: Vec<String> = if inputs.is_empty() { vec!["-".to_string()] } else { inputs.to_vec() };
	for (i, name) in list.iter().enumerate() {
		let scratch = RefCell::new(Vec::new());
		let ok = if name == "-" {
			if stdin_used {
				false
			} else {
				stdin_used = true;
				guarded(&scratch, || tr.translate_reader(stdin, from.map(F::xt))).ok
			}
		} else {
			let p = dir.join(name);
			match std::fs::read(&p) {
				Err(_) => false,
				Ok(data) => {
					let f = from.or_else(|| ext_format(name));
					guarded(&scratch, || tr.translate_slice(&data, f.map(F::xt))).ok
				}
			}
		};
		if !ok {
			failed_at = Some(i);
			break;
		}
		// The bytes owed for a finished input are taken from a translation of that input ALONE on a fresh
		// translator that is dropped before its buffer is read: what the shared translator has pushed into
		// `buf` so far says nothing if the library itself buffers (C03 ties the two together).
		let alone = RefCell::new(Vec::new());
		{
			let mut t1 = xt::Translator::new(SharedBuf(&alone), to.xt());
			let scratch = RefCell::new(Vec::new());
			if name == "-" {
				let _ = guarded(&scratch, || t1.translate_reader(stdin, from.map(F::xt)));
			} else if let Ok(data) = std::fs::read(dir.join(name)) {
				let f = from.or_else(|| ext_format(name));
				let _ = guarded(&scratch, || t1.translate_slice(&data, f.map(F::xt)));
			}
			let _ = t1.flush();
		}
		complete.extend_from_slice(&alone.into_inner());
	}
	drop(tr);
	let bytes = buf.into_inner();
	LibRun { complete, bytes, failed_at }
}

pub struct Canon {
	pub short_help: Vec<u8>,
	pub long_help: Vec<u8>,
	pub version: Vec<u8>,
}

pub fn canon(dir: &Path) -> Canon {
	let get = |arg: &str| {
		let o = proc::run(&Spawn::new(dir, &[arg]));
		assert!(o.exit == Exit::Code(0), "MACHINERY: xt {arg} did not exit 0: {}", o.brief());
		o.stdout
	};
	Canon { short_help: get("-h"), long_help: get("--help"), version: get("-V") }
}

fn stdin_name(k: usize) -> &'static str {
	["translatable", "malformed", "empty"][k]
}

pub fn stdin_bytes(k: usize) -> &'static [u8] {
	[GOOD_JSON, BAD_JSON, b""][k]
}

fn judge(argv: &[&str], stdin_k: usize, stdout: &Stdout, dir: &Path, canon: &Canon, o: &ProcOut) -> Option<(String, String)> {
	let p = parse_argv(argv);
	let code = match &o.exit {
		Exit::Code(c) => *c,
		other => return Some(("cli-died".into(), format!("{other}"))),
	};
	let stderr_ok = o.stderr.starts_with(b"xt error");
	if p.invalid && !p.asks_help {
		if code != 2 {
			return Some(("invalid-argv-not-exit-2".into(), format!("invalid command line but {}", o.brief())));
		}
		if !o.stdout.is_empty() {
			return Some(("invalid-argv-wrote-stdout".into(), o.brief()));
		}
		if !stderr_ok || !String::from_utf8_lossy(&o.stderr).to_ascii_lowercase().contains("usage") {
			return Some(("invalid-argv-without-usage-message".into(), o.brief()));
		}
		return None;
	}
	if p.asks_help {
		if p.invalid {
			// the statement does not order the two
			if code == 0 || code == 2 {
				return None;
			}
			return Some(("help-and-invalid-bad-exit".into(), o.brief()));
		}
		if code != 0 {
			return Some(("help-not-exit-0".into(), format!("help/version requested but {}", o.brief())));
		}
		if !o.stderr.is_empty() {
			return Some(("help-wrote-stderr".into(), o.brief()));
		}
		if *stdout == Stdout::DevFull {
			return None; // nothing can be captured from /dev/full
		}
		let norm = |b: &[u8]| String::from_utf8_lossy(b).replace(proc::xt_bin(true).to_str().unwrap(), "xt").replace(proc::xt_bin(false).to_str().unwrap(), "xt").replace("\r\n", "\n");
		let got = norm(&o.stdout);
		if got != norm(&canon.short_help) && got != norm(&canon.long_help) && got != norm(&canon.version) {
			return Some(("help-output-unexpected".into(), o.brief()));
		}
		return None;
	}
	if code == 2 {
		return Some(("valid-argv-exit-2".into(), format!("valid command line {argv:?} but {}", o.brief())));
	}
	let to = p.to.unwrap_or(F::Json);
	if *stdout == Stdout::Pty && to == F::Msgpack {
		if code != 1 || !o.stdout.is_empty() {
			return Some(("msgpack-written-to-terminal".into(), o.brief()));
		}
		if !stderr_ok {
			return Some(("failure-without-xt-error".into(), o.brief()));
		}
		return None;
	}
	let lib = library_run(dir, &p.inputs, p.from, to, stdin_bytes(stdin_k));
	if *stdout == Stdout::DevFull {
		// every write fails with ENOSPC: a run that has anything to write cannot succeed
		if !lib.bytes.is_empty() && (code != 1 || !stderr_ok) {
			return Some(("write-failure-not-reported".into(), format!("stdout is /dev/full and the library produces {} bytes, but {}", lib.bytes.len(), o.brief())));
		}
		if lib.bytes.is_empty() && lib.failed_at.is_none() && code != 0 {
			return Some(("all-inputs-translate-but-nonzero-exit".into(), o.brief()));
		}
		return None;
	}
	// a pty translates "\n" to "\r\n" on output
	let got: Vec<u8> = if *stdout == Stdout::Pty { String::from_utf8_lossy(&o.stdout).replace("\r\n", "\n").into_bytes() } else { o.stdout.clone() };
	match lib.failed_at {
		None => {
			if code != 0 {
				return Some(("all-inputs-translate-but-nonzero-exit".into(), o.brief()));
			}
			if got != lib.bytes {
				return Some(("stdout-differs-from-library".into(), format!("{} | library: {}", o.brief(), show(&lib.bytes))));
			}
			if !o.stderr.is_empty() {
				return Some(("success-wrote-stderr".into(), o.brief()));
			}
			None
		}
		Some(i) => {
			if code != 1 {
				return Some(("failing-input-but-exit-not-1".into(), format!("input #{i} fails in the library but {}", o.brief())));
			}
			if !stderr_ok {
				return Some(("failure-without-xt-error".into(), o.brief()));
			}
			let list: Vec<String> = if p.inputs.is_empty() { vec!["-".into()] } else { p.inputs.clone() };
			let name = &list[i];
			let shown = if name == "-" { "standard input".to_string() } else { name.clone() };
			if !String::from_utf8_lossy(&o.stderr).contains(&shown) {
				return Some(("failure-does-not-name-the-input".into(), format!("expected '{shown}' in stderr: {}", o.brief())));
			}
			if !lib.bytes.starts_with(&got) {
				return Some(("stdout-carries-something-else".into(), format!("{} | library bytes: {}", o.brief(), show(&lib.bytes))));
			}
			None
		}
	}
}

pub fn vocabulary() -> Vec<&'static str> {
	vec![
		"-fj", "-fyaml", "-f", "j", "yaml", "-f=t", "-tj", "-tm", "-ttoml", "-t", "m", "-t=y", "-tx", "-f", "JSON", "-x", "--bogus", "--t=j", "-h",
		"--help", "-V", "--version", "--", "-", "good.json", "good.yaml", "good.toml", "good.msgpack", "bad.json", "undetectable", "null.json", "missing", "dir", "-hx", "-fjh",
	]
}

fn case_json(argv: &[&str], stdin_k: usize, stdout: &Stdout) -> Value {
	json!({"kind": "cli", "argv": argv, "stdin": stdin_name(stdin_k), "stdout": format!("{stdout:?}")})
}

pub fn run(ctx: &Ctx) -> CheckOutput {
	let thorough = ctx.thorough();
	proc::assert_bins();
	let w = WorkDir::new("c13");
	fixtures(&w);
	let canon = canon(w.path());
	let mut vocab = vocabulary();
	vocab.sort_unstable();
	vocab.dedup();
	let mut jobs: Vec<(Vec<&str>, usize, Stdout)> = vec![];
	let outs = [Stdout::Pipe, Stdout::File, Stdout::Pty];
	let mut push_all = |argv: Vec<&'static str>, full: bool| {
		if full {
			for k in 0..3 {
				for o in &outs {
					jobs.push((argv.clone(), k, o.clone()));
				}
			}
			jobs.push((argv.clone(), 0, Stdout::DevFull));
		} else {
			jobs.push((argv.clone(), 0, Stdout::Pipe));
			jobs.push((argv, 1, Stdout::Pty));
		}
	};
	push_all(vec![], true);
	for a in &vocab {
		push_all(vec![a], true);
		for b in &vocab {
			push_all(vec![a, b], true);
			for c in &vocab {
				push_all(vec![a, b, c], thorough);
				if thorough {
					// length 4: only behind a fixed head, to keep the count bounded
					if *a == "-tj" || *a == "-" {
						for d in &vocab {
							push_all(vec![a, b, c, d], false);
						}
					}
				}
			}
		}
	}
	for k in 0..3 {
		w.write(&format!("stdin-fixture-{k}"), stdin_bytes(k));
	}
	let dir = w.path().to_path_buf();
	let tallies = par_fold(&jobs, Tally::default, |t, idx, (argv, k, out)| {
		let mut sp = Spawn::new(&dir, argv);
		sp.stdin = Stdin::Bytes(stdin_bytes(*k).to_vec());
		sp.stdout = out.clone();
		sp.release = idx % 2 == 0;
		sp.timeout = std::time::Duration::from_secs(20);
		let o = proc::run(&sp);
		t.evaluations += 1;
		let p = parse_argv(argv);
		t.count(if p.invalid && !p.asks_help { "argv:invalid" } else if p.asks_help { "argv:help" } else { "argv:valid" });
		t.count(&format!("stdout:{out:?}"));
		if !(p.invalid || p.asks_help) {
			t.nontrivial(fnv(&[argv.join("\u{1}").as_bytes(), &[*k as u8], format!("{out:?}").as_bytes()]));
		}
		if let Some((class, msg)) = judge(argv, *k, out, &dir, &canon, &o) {
			t.bad(class, case_json(argv, *k, out), format!("xt {argv:?} stdin={} stdout={out:?}: {msg}", stdin_name(*k)));
		}
		// the same with standard input redirected from a regular file (`xt - - < file`): the descriptor can
		// then be mapped or sought, but it is still standard input, read at most once
		if *out == Stdout::Pipe && !p.invalid && !p.asks_help && (p.inputs.is_empty() || p.inputs.iter().any(|a| a == "-")) {
			let mut sp = Spawn::new(&dir, argv);
			sp.stdin = Stdin::File(dir.join(format!("stdin-fixture-{k}")));
			sp.release = idx % 2 == 1;
			sp.timeout = std::time::Duration::from_secs(20);
			let o = proc::run(&sp);
			t.evaluations += 1;
			t.count("stdin:regular-file");
			if let Some((class, msg)) = judge(argv, *k, out, &dir, &canon, &o) {
				let mut case = case_json(argv, *k, out);
				case["stdin_file"] = json!(true);
				t.bad(format!("{class}:stdin-regular-file"), case, format!("xt {argv:?} stdin={} (a regular file) stdout={out:?}: {msg}", stdin_name(*k)));
			}
		}
		if idx % 20011 == 0 {
			t.sample(5, || json!({"argv": argv, "stdin": stdin_name(*k), "stdout": format!("{out:?}"), "exit": o.exit.to_string()}));
		}
	});
	let mut tally = Tally::merge_all(tallies);
	// stdin that arrives in two bursts (second burst only once xt drained the first): a later burst that
	// is malformed must still give exit 1 and name standard input; a good one exit 0 with every document
	let streams: [(&str, &[u8], &[u8]); 6] = [
		("yaml-good", b"a: 1\n---\nb: 2\n---\nc", b": 3\n---\nd: 4\n"),
		("yaml-bad-tail", b"a: 1\n---\nb: 2\n---\nc", b": [3\n"),
		("json-good", b"{\"a\":1}\n[2", b",3]\n\"x\"\n"),
		("json-bad-tail", b"{\"a\":1}\n[2", b",,3]\n"),
		("msgpack-bad-tail", b"\x81\xa1a\x01\x92\x02", b"\xc1"),
		("toml-bad-tail", b"[t]\nx = 1 # c\ny = 2 # c\n", b"z = \n"),
	];
	for (name, first, second) in streams {
		for args in [vec![], vec!["-tj"], vec!["-ty", "-"], vec!["good.json", "-"]] {
			let mut sp = Spawn::new(&dir, &args);
			sp.stdin = Stdin::Packets(vec![first.to_vec(), second.to_vec()]);
			let o = proc::run(&sp);
			tally.evaluations += 1;
			tally.count("stdin:two-bursts");
			let whole: Vec<u8> = [first, second].concat();
			let to = parse_argv(&args).to.unwrap_or(F::Json);
			let inputs: Vec<String> = args.iter().filter(|a| !a.starts_with("-t")).map(|s| s.to_string()).collect();
			let lib = library_run(&dir, &inputs, None, to, &whole);
			let good = match (&o.exit, lib.failed_at) {
				(Exit::Code(0), None) => o.stdout == lib.bytes && o.stderr.is_empty(),
				(Exit::Code(1), Some(_)) => o.stderr.starts_with(b"xt error") && String::from_utf8_lossy(&o.stderr).contains("standard input") && lib.bytes.starts_with(&o.stdout),
				_ => false,
			};
			if !good {
				tally.bad("bursty-stdin-wrong-status-or-output", json!({"kind": "bursty", "stream": name, "argv": args}), format!("xt {args:?} with stdin {name} delivered in two bursts: {} | library: failed_at={:?} bytes={}", o.brief(), lib.failed_at, show(&lib.bytes)));
			}
		}
	}
	// inputs of every exact size around the page / buffer / pipe sizes, complete and with a malformed
	// last document, as a regular file, a FIFO and on standard input: same status discipline
	let mut sized: Vec<(usize, bool, u8)> = vec![];
	for size in crate::gen::size_ladder(false) {
		for bad in [false, true] {
			for supply in 0..3u8 {
				sized.push((size, bad, supply));
			}
		}
	}
	let sdir = dir.clone();
	let ts = par_fold(&sized, Tally::default, |t, idx, &(size, bad, supply)| {
		let mut data = super::c14::json_stream_exact(size);
		if bad {
			let n = data.len();
			data[n - 3] = b'@'; // the closing quote of the last document
		}
		let sub = sdir.join(format!("sized{idx}"));
		std::fs::create_dir_all(&sub).unwrap();
		let name = "stream";
		let argv: Vec<&str> = if supply == 2 { vec!["-tj"] } else { vec!["-tj", name] };
		let mut sp = Spawn::new(&sub, &argv);
		let mut th = None;
		match supply {
			0 => {
				std::fs::write(sub.join(name), &data).unwrap();
			}
			1 => {
				let p = sub.join(name);
				proc::mkfifo(&p);
				let d = data.clone();
				th = Some(std::thread::spawn(move || {
					use std::io::Write;
					if let Ok(mut f) = std::fs::OpenOptions::new().write(true).open(&p) {
						let _ = f.write_all(&d);
					}
				}));
			}
			_ => sp.stdin = Stdin::Bytes(data.clone()),
		}
		sp.timeout = std::time::Duration::from_secs(20);
		let o = proc::run(&sp);
		if let Some(th) = th {
			if !th.is_finished() {
				use std::os::unix::fs::OpenOptionsExt;
				let _ = std::fs::OpenOptions::new().read(true).custom_flags(libc::O_NONBLOCK).open(sub.join(name));
			}
			let _ = th.join();
		}
		let _ = std::fs::remove_dir_all(&sub);
		t.evaluations += 1;
		t.count("sized-inputs");
		t.nontrivial(crate::util::fnv(&[&size.to_le_bytes(), &[u8::from(bad), supply]]));
		let lib = if supply == 0 { crate::run::run_slice(&data, None, F::Json) } else { crate::run::run_reader(crate::run::ChunkReader::new(&data, 0), None, F::Json) };
		let what = ["regular file", "FIFO", "standard input"][supply as usize];
		let good = match (&o.exit, lib.ok) {
			(Exit::Code(0), true) => o.stdout == lib.out && o.stderr.is_empty(),
			(Exit::Code(1), false) => o.stderr.starts_with(b"xt error") && String::from_utf8_lossy(&o.stderr).contains(if supply == 2 { "standard input" } else { name }) && lib.out.starts_with(&o.stdout),
			_ => false,
		};
		if !good {
			t.bad("sized-input-wrong-status-or-output", json!({"kind": "sized", "size": size, "malformed_tail": bad, "supply": what}), format!("a {}JSON stream of {size} bytes as a {what}: {} | library: ok={} {} bytes, err {}", if bad { "malformed-at-the-end " } else { "" }, o.brief(), lib.ok, lib.out.len(), lib.err));
		}
	});
	tally.merge(Tally::merge_all(ts));
	let req = |k: &str| (k.to_string(), *tally.counters.get(k).unwrap_or(&0));
	let required = vec![req("sized-inputs"), req("stdin:regular-file"), req("argv:invalid"), req("argv:help"), req("argv:valid"), req("stdout:Pipe"), req("stdout:File"), req("stdout:Pty"), req("stdout:DevFull"), req("stdin:two-bursts")];
	CheckOutput {
		level: "exploration",
		tally,
		rule: format!("all argument vectors of length <= {} over a vocabulary of {} words (-f/-t with valid names and aliases in attached, detached and '=' form, missing values, invalid names, repeated options, unknown short/long options, -h --help -V --version, '--', '-', translatable / malformed / undetectable / unrepresentable / missing / directory paths) x stdin in {{translatable, malformed, empty}} x stdout in {{pipe, regular file, pseudo-terminal}} (vectors that read standard input also with it redirected from a regular file) (+ /dev/full for the short vectors: a run with output must then exit 1 with 'xt error'), run through the real binary (debug and release alternating); reference model: conventional option parsing per doc/xt.1 (invalid, asks_help) plus the library's own verdict and bytes for the input list. Oracle: exit 2 <=> invalid (and no help request) with empty stdout and an 'xt error' + usage message on stderr; exit 0 <=> help/version or every input translated, stdout exactly the help text or the library's bytes; otherwise exit 1, stderr begins 'xt error' and names the failing input, stdout is a byte prefix of the library's bytes; MessagePack never reaches a terminal; never a signal. Plus JSON streams of every exact size 2^k-1, 2^k, 2^k+1 around 4 KiB..64 KiB, complete and malformed at the end, as a regular file, a FIFO and on standard input: exit 0 with the library's bytes and empty stderr, or exit 1 naming the input with a prefix of them. Non-trivial = valid argv without help.", if thorough { "3 (+ length 4 behind two fixed heads)" } else { "2 (all combinations) and 3 (two stdin/stdout combinations)" }, vocab.len()),
		exhaustive: true,
		bounds: json!({"argv_len": if thorough { 4 } else { 3 }, "vocabulary": vocab.len()}),
		assumptions: vec!["the reference model of option parsing is written from the statement and doc/xt.1; argv that is both invalid and help-requesting may exit 0 or 2".into()],
		required,
		extra: Default::default(),
	}
}

pub fn replay(case: &Value) -> Option<String> {
	proc::assert_bins();
	let w = WorkDir::new("c13-replay");
	fixtures(&w);
	let canon = canon(w.path());
	let argv: Vec<String> = case["argv"].as_array().unwrap().iter().map(|x| x.as_str().unwrap().to_string()).collect();
	let argv: Vec<&str> = argv.iter().map(String::as_str).collect();
	let k = ["translatable", "malformed", "empty"].iter().position(|s| *s == case["stdin"].as_str().unwrap()).unwrap_or(0);
	let out = match case["stdout"].as_str().unwrap_or("Pipe") {
		"File" => Stdout::File,
		"DevFull" => Stdout::DevFull,
		"Pty" => Stdout::Pty,
		_ => Stdout::Pipe,
	};
	for release in [true, false] {
		let mut sp = Spawn::new(w.path(), &argv);
		sp.stdin = if case["stdin_file"] == true { Stdin::File(w.write("stdin-fixture", stdin_bytes(k))) } else { Stdin::Bytes(stdin_bytes(k).to_vec()) };
		sp.stdout = out.clone();
		sp.release = release;
		let o = proc::run(&sp);
		if let Some((_, msg)) = judge(&argv, k, &out, w.path(), &canon, &o) {
			return Some(msg);
		}
	}
	None
}
