//! C16 — broken pipes and other write errors at the CLI. Fault enumeration at the syscall level
//! (LD_PRELOAD shim: every write(2) on fd 1 fails / is short) plus a real pipe whose consumer
//! leaves after taking k bytes while xt is provably blocked.

use serde_json::{json, Value};

use crate::proc::{self, Exit, ProcOut, Spawn, Stdin, Stdout, WorkDir};
use crate::report::{CheckOutput, Ctx, Tally};
use crate::run::F;
use crate::util::{fnv, par_fold, show};

const EPIPE: i64 = 32;
const ENOSPC: i64 = 28;
const EIO: i64 = 5;

fn json_docs(total: usize, doc: usize) -> Vec<u8> {
	// a stream of JSON documents of `doc` bytes each (output size == input size for JSON -> JSON)
	let mut out = vec![];
	let mut i = 0;
	while out.len() < total {
		let head = format!("{{\"i\":{i},\"p\":\"");
		let tail = "\"}\n";
		let pad = doc.saturating_sub(head.len() + tail.len());
		out.extend_from_slice(format!("{head}{}{tail}", "y".repeat(pad)).as_bytes());
		i += 1;
	}
	out
}

struct Scenario {
	name: String,
	args: Vec<String>,
	stdin: Option<Vec<u8>>,
}

fn scenarios(w: &WorkDir, thorough: bool) -> Vec<Scenario> {
	let mut v = vec![];
	w.write("tiny.json", b"{\"a\":[1,2,3],\"b\":\"forty bytes or so\"}\n");
	w.write("near8k-a.json", &json_docs(8191, 8191));
	w.write("near8k-b.json", &json_docs(8192, 8192));
	w.write("near8k-c.json", &json_docs(8193, 8193));
	w.write("big.json", &json_docs(3 * 65536, 700));
	w.write("docs8192.json", &{
		let mut d = json_docs(8192, 8192);
		d.extend(json_docs(8191, 8191));
		d.extend(json_docs(8192, 8192));
		d.extend(json_docs(8191, 8191));
		d
	});
	w.write("table.json", b"{\"t\":{\"k\":\"v\"},\"x\":1}\n");
	w.write("empty-tail.json", b"{\"k\":[1,2],\"e\":\"\"}\n");
	w.write("empty-tail2.json", b"[\"x\",\"\"]\n{}\n[]\n\"\"\n");
	// single documents whose TOML rendering is larger than the 8 KiB stdout buffer / a 64 KiB pipe
	w.write("table9k.json", format!("{{\"t\":{{\"k\":\"v\"}},\"x\":\"{}\"}}\n", "y".repeat(9000)).as_bytes());
	w.write("table200k.json", format!("{{\"t\":{{\"k\":\"v\"}},\"x\":\"{}\",\"z\":[{}1]}}\n", "y".repeat(70_000), "123456,".repeat(20_000)).as_bytes());
	let targets: &[F] = &F::ALL;
	for &to in targets {
		let t = format!("-t{}", to.letter());
		let files: &[&str] = if to == F::Toml { &["table.json", "table9k.json", "table200k.json"] } else if thorough { &["tiny.json", "near8k-a.json", "near8k-b.json", "near8k-c.json", "big.json", "docs8192.json"] } else { &["tiny.json", "near8k-b.json", "big.json", "docs8192.json"] };
		for f in files {
			v.push(Scenario { name: format!("{}:file:{f}", to.name()), args: vec![t.clone(), f.to_string()], stdin: None });
			if thorough || *f != "near8k-b.json" {
				v.push(Scenario { name: format!("{}:stdin:{f}", to.name()), args: vec![t.clone()], stdin: Some(std::fs::read(w.path().join(f)).unwrap()) });
			}
		}
		if to != F::Toml {
			for f in ["empty-tail.json", "empty-tail2.json"] {
				v.push(Scenario { name: format!("{}:file:{f}", to.name()), args: vec![t.clone(), f.to_string()], stdin: None });
			}
			v.push(Scenario { name: format!("{}:2files-empty-tail", to.name()), args: vec![t.clone(), "tiny.json".into(), "empty-tail.json".into()], stdin: None });
			v.push(Scenario { name: format!("{}:3files", to.name()), args: vec![t.clone(), "tiny.json".into(), "near8k-b.json".into(), "tiny.json".into()], stdin: None });
			v.push(Scenario { name: format!("{}:3files-stdin", to.name()), args: vec![t.clone(), "tiny.json".into(), "-".into(), "near8k-c.json".into()], stdin: Some(b"[\"from stdin\"]\n".to_vec()) });
		}
	}
	v
}

fn spawn_for(dir: &std::path::Path, sc: &Scenario, release: bool) -> Spawn {
	let a: Vec<&str> = sc.args.iter().map(String::as_str).collect();
	let mut sp = Spawn::new(dir, &a);
	sp.stdin = sc.stdin.clone().map_or(Stdin::Null, Stdin::Bytes);
	sp.release = release;
	sp.timeout = std::time::Duration::from_secs(30);
	sp
}

fn with_shim(sp: &mut Spawn, extra: &[(&str, String)]) {
	sp.env.push(("LD_PRELOAD".into(), proc::shim_path().to_str().unwrap().to_string()));
	for (k, v) in extra {
		sp.env.push((k.to_string(), v.clone()));
	}
}

fn judge_errno(errno: i64, o: &ProcOut) -> Option<(&'static str, String)> {
	if errno == EPIPE {
		match &o.exit {
			Exit::Signal(13) => {
				if !o.stderr.is_empty() {
					return Some(("sigpipe-but-stderr-not-empty", o.brief()));
				}
				None
			}
			Exit::Code(0) => Some(("broken-pipe-exit-0", format!("exit 0 although the consumer is gone: stderr={}", show(&o.stderr)))),
			other => Some(("broken-pipe-not-sigpipe", format!("{other}, stderr={}", show(&o.stderr)))),
		}
	} else {
		match &o.exit {
			Exit::Code(1) => {
				if !o.stderr.starts_with(b"xt error") {
					return Some(("write-error-without-message", o.brief()));
				}
				None
			}
			Exit::Code(0) => Some(("write-error-exit-0", format!("exit 0 although write failed with errno {errno}"))),
			other => Some(("write-error-bad-exit", format!("{other}, stderr={}", show(&o.stderr)))),
		}
	}
}

#[derive(Clone)]
enum Job {
	Errno { sc: usize, j: usize, errno: i64, release: bool },
	Short { sc: usize, j: usize, mode: u8 },
	Leave { sc: usize, k: usize, cap: i32 },
	DevFull { sc: usize },
	/// EPIPE from write #j on, with SIGPIPE blocked in the mask xt inherits
	BlockedPipe { sc: usize, j: usize },
}

pub fn run(ctx: &Ctx) -> CheckOutput {
	let thorough = ctx.thorough();
	proc::assert_bins();
	assert!(proc::shim_path().exists(), "MACHINERY: write-fault shim missing (run /verif/check setup)");
	let w = WorkDir::new("c16");
	let scs = scenarios(&w, thorough);
	let dir = w.path().to_path_buf();
	// dry runs: count write calls on fd 1 and capture the fault-free output
	let mut clean: Vec<(usize, Vec<u8>)> = vec![];
	for (i, sc) in scs.iter().enumerate() {
		let log = dir.join(format!("wlog-{i}"));
		let mut sp = spawn_for(&dir, sc, true);
		with_shim(&mut sp, &[("WFAULT_LOG", log.to_str().unwrap().to_string())]);
		let o = proc::run(&sp);
		assert!(o.exit == Exit::Code(0), "MACHINERY: dry run of scenario {} failed: {}", sc.name, o.brief());
		let calls = std::fs::read_to_string(&log).unwrap_or_default().lines().count();
		assert!(calls >= 1, "MACHINERY: the shim saw no write on fd 1 for scenario {} (is LD_PRELOAD effective?)", sc.name);
		// the shim must be transparent when idle
		let plain = proc::run(&spawn_for(&dir, sc, true));
		assert!(plain.stdout == o.stdout, "MACHINERY: shim changes the output of scenario {}", sc.name);
		clean.push((calls, o.stdout));
	}
	let mut jobs: Vec<Job> = vec![];
	for (i, _) in scs.iter().enumerate() {
		let calls = clean[i].0;
		let js: Vec<usize> = (0..calls).collect();
		for &j in &js {
			for errno in [EPIPE, ENOSPC, EIO] {
				jobs.push(Job::Errno { sc: i, j, errno, release: j % 2 == 0 });
			}
			if j % 3 == 0 || j + 1 == calls {
				jobs.push(Job::BlockedPipe { sc: i, j });
			}
			jobs.push(Job::Short { sc: i, j, mode: 1 });
			jobs.push(Job::Short { sc: i, j, mode: 2 });
		}
		jobs.push(Job::DevFull { sc: i });
		// a real pipe with a consumer that leaves
		let out_len = clean[i].1.len();
		jobs.push(Job::Leave { sc: i, k: usize::MAX, cap: 0 });
		if out_len > 5 * 4096 {
			let ks: Vec<usize> = if thorough { (0..=16384).collect() } else { (0..=4200).chain((4201..=16384).step_by(13)).chain([8191, 8192, 8193, 12287, 12288, 12289, 16383, 16384]).collect() };
			for k in ks {
				if k + 4096 < out_len {
					jobs.push(Job::Leave { sc: i, k, cap: 4096 });
				}
			}
			for m in 1..=2usize {
				for d in [0usize, 1, 2] {
					let k = 65536 * m + d - 1;
					if k + 65536 < out_len {
						jobs.push(Job::Leave { sc: i, k, cap: 0 });
					}
				}
			}
		}
	}
	let tallies = par_fold(&jobs, Tally::default, |t, idx, job| {
		t.evaluations += 1;
		match job {
			Job::Errno { sc, j, errno, release } => {
				let mut sp = spawn_for(&dir, &scs[*sc], *release);
				with_shim(&mut sp, &[("WFAULT_AT", j.to_string()), ("WFAULT_ERRNO", errno.to_string())]);
				let o = proc::run(&sp);
				t.count(&format!("errno:{errno}"));
				t.nontrivial(fnv(&[scs[*sc].name.as_bytes(), &j.to_le_bytes(), &errno.to_le_bytes()]));
				if let Some((class, msg)) = judge_errno(*errno, &o) {
					t.bad(class, json!({"kind": "errno", "scenario": scs[*sc].name, "args": scs[*sc].args, "write_index": j, "errno": errno, "release": release}),
						format!("{} ({:?}): write #{j} on fd 1 fails with errno {errno}: {msg}", scs[*sc].name, scs[*sc].args));
				}
			}
			Job::Short { sc, j, mode } => {
				let mut sp = spawn_for(&dir, &scs[*sc], true);
				with_shim(&mut sp, &[("WFAULT_AT", j.to_string()), ("WFAULT_SHORT", mode.to_string())]);
				let o = proc::run(&sp);
				t.count("short-writes");
				if o.exit != Exit::Code(0) || o.stdout != clean[*sc].1 {
					t.bad("short-write-loses-output", json!({"kind": "short", "scenario": scs[*sc].name, "args": scs[*sc].args, "write_index": j, "mode": mode}),
						format!("{}: write #{j} accepts only {} bytes: {} with {} bytes (want exit 0 with {})", scs[*sc].name, if *mode == 1 { "1".to_string() } else { "len-1".to_string() }, o.exit, o.stdout.len(), clean[*sc].1.len()));
				}
			}
			Job::BlockedPipe { sc, j } => {
				let mut sp = spawn_for(&dir, &scs[*sc], j % 2 == 0);
				sp.block_sigpipe = true;
				with_shim(&mut sp, &[("WFAULT_AT", j.to_string()), ("WFAULT_ERRNO", EPIPE.to_string())]);
				let o = proc::run(&sp);
				t.count("epipe-with-sigpipe-blocked");
				// the signal cannot end the process here; what remains of the property: no message, never status 0
				let good = matches!(o.exit, Exit::Signal(13) | Exit::Code(1)) && o.stderr.is_empty();
				if !good {
					t.bad("broken-pipe-reported-when-sigpipe-is-blocked", json!({"kind": "blocked-pipe", "scenario": scs[*sc].name, "args": scs[*sc].args, "write_index": j}),
						format!("{} ({:?}) with SIGPIPE blocked in the inherited mask: write #{j} on stdout fails with EPIPE: {}", scs[*sc].name, scs[*sc].args, o.brief()));
				}
			}
			Job::DevFull { sc } => {
				let mut sp = spawn_for(&dir, &scs[*sc], true);
				sp.stdout = Stdout::DevFull;
				let o = proc::run(&sp);
				t.count("devfull");
				if let Some((class, msg)) = judge_errno(ENOSPC, &o) {
					t.bad(format!("devfull-{class}"), json!({"kind": "devfull", "scenario": scs[*sc].name, "args": scs[*sc].args}), format!("{} with stdout=/dev/full: {msg}", scs[*sc].name));
				}
			}
			Job::Leave { sc, k, cap } => {
				let sp = spawn_for(&dir, &scs[*sc], idx % 2 == 0);
				let (o, blocked) = proc::run_with_leaving_consumer(&sp, *cap, *k);
				t.count(if *k == usize::MAX { "consumer-gone-before-start" } else { "consumer-leaves-after-k" });
				if blocked {
					t.count("consumer-left-while-xt-blocked-in-write");
				}
				t.nontrivial(fnv(&[scs[*sc].name.as_bytes(), &k.to_le_bytes()]));
				if *k != usize::MAX && !clean[*sc].1.starts_with(&o.stdout) {
					t.bad("pipe-bytes-differ", json!({"kind": "leave", "scenario": scs[*sc].name, "k": k}), format!("{}: the {k} bytes taken are not a prefix of the fault-free output", scs[*sc].name));
				}
				if let Some((class, msg)) = judge_errno(EPIPE, &o) {
					t.bad(class, json!({"kind": "leave", "scenario": scs[*sc].name, "args": scs[*sc].args, "k": if *k == usize::MAX { -1i64 } else { *k as i64 }, "cap": cap}),
						format!("{}: consumer {} and leaves (pipe capacity {}): {msg}", scs[*sc].name, if *k == usize::MAX { "is gone before xt starts".to_string() } else { format!("takes {k} bytes") }, if *cap == 0 { "default".to_string() } else { cap.to_string() }));
				}
			}
		}
		if idx % 1501 == 0 {
			t.sample(5, || match job {
				Job::Errno { sc, j, errno, .. } => json!({"scenario": scs[*sc].name, "write_index": j, "errno": errno}),
				Job::Short { sc, j, mode } => json!({"scenario": scs[*sc].name, "write_index": j, "short_mode": mode}),
				Job::Leave { sc, k, cap } => json!({"scenario": scs[*sc].name, "consumer_takes": k, "pipe_capacity": cap}),
				Job::DevFull { sc } => json!({"scenario": scs[*sc].name, "stdout": "/dev/full"}),
				Job::BlockedPipe { sc, j } => json!({"scenario": scs[*sc].name, "write_index": j, "sigpipe": "blocked"}),
			});
		}
	});
	let mut tally = Tally::merge_all(tallies);
	tally.add("write-calls-enumerated", clean.iter().map(|c| c.0 as u64).sum());
	let req = |k: &str| (k.to_string(), *tally.counters.get(k).unwrap_or(&0));
	let required = vec![req("errno:32"), req("errno:28"), req("errno:5"), req("short-writes"), req("devfull"), req("consumer-leaves-after-k"), req("consumer-left-while-xt-blocked-in-write"), req("consumer-gone-before-start"), req("epipe-with-sigpipe-blocked")];
	CheckOutput {
		level: "fault_enumeration",
		tally,
		rule: "scenarios: every target x {40 B, 8 KiB-1/8 KiB/8 KiB+1, documents that fill the 8 KiB stdout buffer exactly, 3 x 64 KiB} outputs (TOML: 40 B, 9 KB and 200 KB single documents) x file and stdin input, 1 and 3 inputs (incl. '-' in the middle). A dry run under the LD_PRELOAD shim counts the write(2)/writev(2) calls on fd 1 (J); then for EVERY call index j call j and all later ones fail with EPIPE / ENOSPC / EIO, and call j alone is short (1 byte; len-1). Oracle: EPIPE => killed by SIGPIPE with empty stderr, never exit 0 (with SIGPIPE blocked in the inherited mask, every third j: SIGPIPE or status 1, still nothing on stderr); other errno => exit 1 with an 'xt error' line; short writes => exit 0 and the full output. Real pipe: the harness is the consumer, takes exactly k bytes, waits until /proc/<pid>/syscall shows xt blocked in write(1, ..), then closes (4 KiB pipe: k over 0..16384; 64 KiB pipe: around each capacity multiple), and a consumer gone before xt starts. /dev/full => exit 1 with a message.".into(),
		exhaustive: thorough,
		bounds: json!({"write_indices": "all", "close_points": if thorough { "every k in 0..=16384" } else { "every k in 0..=4200, every 13th up to 16384, buffer edges" }}),
		assumptions: vec![
			"Linux x86-64: write is syscall 1; the shim interposes libc's write/writev, which Rust's std uses for fd 1 (checked by the dry run seeing calls)".into(),
			"a consumer that leaves between two writes is equivalent to 'the next write fails with EPIPE' (covered by the shim)".into(),
		],
		required,
		extra: Default::default(),
	}
}

pub fn replay(_case: &Value) -> Option<String> {
	Some("C16 cases are replayed by re-running the check (scenarios are regenerated deterministically)".into())
}
