//! C14 — CLI source-format resolution and agreement with the library.

use std::path::Path;

use serde_json::{json, Value};

use super::c13::{ext_format, library_run};
use crate::proc::{self, Exit, ProcOut, Spawn, Stdin, WorkDir};
use crate::report::{CheckOutput, Ctx, Tally};
use crate::run::{run_reader, run_slice, ChunkReader, F};
use crate::util::{fnv, par_fold, show};

fn casings(ext: &str, all: bool) -> Vec<String> {
	let n = ext.len();
	let mut out = vec![];
	let total = 1usize << n;
	for mask in 0..total {
		if !all && !(mask == 0 || mask == total - 1 || mask == 1 || mask == total / 2 || mask == 0b0101 % total || mask == 0b1010 % total) {
			continue;
		}
		let s: String = ext.chars().enumerate().map(|(i, c)| if mask & (1 << i) != 0 { c.to_ascii_uppercase() } else { c }).collect();
		if !out.contains(&s) {
			out.push(s);
		}
	}
	out
}

/// Number of small contents (the full cross product runs over these only).
const BASE_CONTENTS: usize = 9;

/// A stream of 64-byte JSON documents of exactly `total` bytes.
pub fn json_stream_exact(total: usize) -> Vec<u8> {
	let n = (total / 64).max(1);
	let mut out = Vec::with_capacity(total);
	for i in 0..n {
		let len = if i + 1 == n { total - 64 * (n - 1) } else { 64 };
		let head = format!("{{\"i\":{i:06},\"p\":\"");
		out.extend_from_slice(head.as_bytes());
		out.extend(std::iter::repeat(b'y').take(len.saturating_sub(head.len() + 3)));
		out.extend_from_slice(b"\"}\n");
	}
	out
}

pub fn contents() -> &'static Vec<(String, Vec<u8>)> {
	static C: std::sync::OnceLock<Vec<(String, Vec<u8>)>> = std::sync::OnceLock::new();
	C.get_or_init(|| {
		let mut v: Vec<(String, Vec<u8>)> = vec![
			("json".into(), b"{\"a\":1,\"b\":[1,2]}\n".to_vec()),
			("yaml".into(), b"k: v\nl:\n  - 1\n".to_vec()),
			("toml".into(), b"x = 1\n[t]\ny = \"z\"\n".to_vec()),
			("msgpack".into(), b"\x82\xa1a\x01\xa1b\x92\x01\x02".to_vec()),
			("json+yaml".into(), b"{\"a\": 1}".to_vec()),
			("yaml+toml".into(), b"[t]\n".to_vec()),
			("json-multi".into(), b"[1]\n[2]\n".to_vec()),
			("invalid".into(), b"\x00\x01{{{ @@@\n".to_vec()),
			("empty".into(), b"".to_vec()),
		];
		assert!(v.len() == BASE_CONTENTS);
		// inputs of every exact size around the page / buffer / pipe sizes (whatever way the CLI gets at
		// the bytes of a file, FIFO or standard input must not depend on how many there are)
		for size in crate::gen::size_ladder(false) {
			v.push((format!("json-stream-{size}"), json_stream_exact(size)));
		}
		v
	})
}

#[derive(Clone, Debug, PartialEq, Eq, Hash)]
enum Supply {
	File,
	Fifo,
	StdinImplicit,
	StdinDash,
}

#[derive(Clone, Debug)]
struct Job {
	/// `-f` is written after the operand instead of before it
	f_last: bool,
	fopt: Option<F>,
	name: String,
	content: usize,
	supply: Supply,
	to: F,
}

fn case_json(j: &Job) -> Value {
	json!({"kind": "resolution", "f_last": j.f_last, "f": j.fopt.map(F::name), "name": j.name, "content": contents()[j.content].0.clone(), "supply": format!("{:?}", j.supply), "to": j.to.name()})
}

fn run_job(dir: &Path, j: &Job, idx: usize) -> ProcOut {
	let data = &contents()[j.content].1;
	let mut args: Vec<String> = vec![];
	if let (Some(f), false) = (j.fopt, j.f_last) {
		args.push(format!("-f{}", f.letter()));
	}
	args.push(format!("-t{}", j.to.letter()));
	let sub = dir.join(format!("j{idx}"));
	std::fs::create_dir_all(&sub).unwrap();
	let mut stdin = Stdin::Null;
	let mut fifo_thread = None;
	match j.supply {
		Supply::File => {
			std::fs::write(sub.join(&j.name), data).unwrap();
			args.push(j.name.clone());
		}
		Supply::Fifo => {
			let p = sub.join(&j.name);
			proc::mkfifo(&p);
			let d = data.clone();
			fifo_thread = Some(std::thread::spawn(move || {
				use std::io::Write;
				if let Ok(mut f) = std::fs::OpenOptions::new().write(true).open(&p) {
					let _ = f.write_all(&d);
				}
			}));
			args.push(j.name.clone());
		}
		Supply::StdinImplicit => stdin = Stdin::Bytes(data.clone()),
		Supply::StdinDash => {
			stdin = Stdin::Bytes(data.clone());
			args.push("-".into());
		}
	}
	if let (Some(f), true) = (j.fopt, j.f_last) {
		args.push("-f".into());
		args.push(f.name().into());
	}
	let argv: Vec<&str> = args.iter().map(String::as_str).collect();
	let mut sp = Spawn::new(&sub, &argv);
	sp.stdin = stdin;
	sp.release = idx % 2 == 1;
	sp.timeout = std::time::Duration::from_secs(20);
	let o = proc::run(&sp);
	if let Some(t) = fifo_thread {
		// if xt never opened the FIFO the writer is still blocked in open(): unblock it
		if !t.is_finished() {
			let _ = std::fs::OpenOptions::new().read(true).custom_flags_nonblock().open(sub.join(&j.name));
		}
		let _ = t.join();
	}
	let _ = std::fs::remove_dir_all(&sub);
	o
}

trait NonBlock {
	fn custom_flags_nonblock(&mut self) -> &mut Self;
}
impl NonBlock for std::fs::OpenOptions {
	fn custom_flags_nonblock(&mut self) -> &mut Self {
		use std::os::unix::fs::OpenOptionsExt;
		self.custom_flags(libc::O_NONBLOCK)
	}
}

fn judge(j: &Job, o: &ProcOut) -> Option<(String, String)> {
	let data = &contents()[j.content].1;
	let path_kind = matches!(j.supply, Supply::File | Supply::Fifo);
	// -f, then extension, then detection
	let source = j.fopt.or_else(|| if path_kind { ext_format(&j.name) } else { None });
	let slice = run_slice(data, source, j.to);
	let reader = run_reader(ChunkReader::new(data, 0), source, j.to);
	let lib = if j.supply == Supply::File { &slice } else { &reader };
	let code = match &o.exit {
		Exit::Code(c) => *c,
		other => return Some(("cli-died".into(), other.to_string())),
	};
	let modes_agree = slice.ok == reader.ok && (!slice.ok || slice.out == reader.out);
	let matches_lib = |l: &crate::run::Outcome| (code == 0) == l.ok && if l.ok { o.stdout == l.out } else { l.out.starts_with(&o.stdout) || o.stdout.starts_with(&l.out) };
	if matches_lib(lib) {
		return None;
	}
	if !modes_agree && (matches_lib(&slice) || matches_lib(&reader)) {
		// the library itself differs between supply modes here (C02's business); either is accepted
		return Some(("__tally:library-modes-differ".into(), String::new()));
	}
	// which source would explain the output?
	let mut explains = vec![];
	for f in [Some(F::Json), Some(F::Msgpack), Some(F::Toml), Some(F::Yaml), None] {
		let l = run_slice(data, f, j.to);
		if (code == 0) == l.ok && l.ok && o.stdout == l.out {
			explains.push(f.map_or("detection", F::name));
		}
	}
	Some((
		"cli-disagrees-with-library".into(),
		format!("expected source {} ({}), library says {}, CLI gave {} (output is what source(s) {:?} would give)", source.map_or("detection", F::name), if j.supply == Supply::File { "slice" } else { "reader" }, lib.brief(), o.brief(), explains),
	))
}

pub fn run(ctx: &Ctx) -> CheckOutput {
	let thorough = ctx.thorough();
	proc::assert_bins();
	let w = WorkDir::new("c14");
	let mut names: Vec<String> = vec![];
	for (ext, all) in [("json", true), ("yaml", true), ("yml", true), ("toml", true), ("msgpack", thorough)] {
		for c in casings(ext, all) {
			names.push(format!("a.{c}"));
		}
	}
	for n in ["a.json.yaml", "a.yaml.json", ".json", "a.", "noext", "a.txt", "a.jsonx", "a.JSON.bak", "dir.yaml/a.toml", "a.b.c.yml", "-.json", "a.j", "a.m", "a.t", "a.y", "a.Y", "a.yam", "a.jso"] {
		names.push(n.to_string());
	}
	let ncontents = BASE_CONTENTS;
	let mut jobs: Vec<Job> = vec![];
	let fopts = [None, Some(F::Json), Some(F::Msgpack), Some(F::Toml), Some(F::Yaml)];
	for fopt in fopts {
		for name in &names {
			if name.contains('/') || name.starts_with('-') {
				continue;
			}
			for content in 0..ncontents {
				for supply in [Supply::File, Supply::Fifo] {
					let targets: &[F] = &F::ALL;
					for &to in targets {
						jobs.push(Job { f_last: false, fopt, name: name.clone(), content, supply: supply.clone(), to });
						if fopt.is_some() && to == F::Json {
							jobs.push(Job { f_last: true, fopt, name: name.clone(), content, supply: supply.clone(), to });
						}
					}
				}
			}
		}
		for content in 0..ncontents {
			for supply in [Supply::StdinImplicit, Supply::StdinDash] {
				for to in F::ALL {
					jobs.push(Job { f_last: false, fopt, name: String::new(), content, supply: supply.clone(), to });
				}
			}
		}
	}
	// ladder-sized contents: by path (regular file, FIFO; with and without a telling extension) and on stdin
	for content in BASE_CONTENTS..contents().len() {
		for fopt in [None, Some(F::Json)] {
			for name in ["noext", "a.json"] {
				for supply in [Supply::File, Supply::Fifo] {
					jobs.push(Job { f_last: false, fopt, name: name.to_string(), content, supply, to: F::Json });
				}
			}
			for supply in [Supply::StdinImplicit, Supply::StdinDash] {
				jobs.push(Job { f_last: false, fopt, name: String::new(), content, supply, to: F::Json });
			}
		}
		jobs.push(Job { f_last: false, fopt: None, name: "noext".into(), content, supply: Supply::Fifo, to: F::Msgpack });
	}
	let dir = w.path().to_path_buf();
	let tallies = par_fold(&jobs, Tally::default, |t, idx, j| {
		let o = run_job(&dir, j, idx);
		t.evaluations += 1;
		t.count(&format!("supply:{:?}", j.supply));
		t.count(&format!("f:{}", j.fopt.map_or("absent", F::name)));
		t.nontrivial(fnv(&[j.name.as_bytes(), &[j.content as u8], format!("{:?}{:?}{}", j.fopt, j.supply, j.to.name()).as_bytes()]));
		match judge(j, &o) {
			Some((class, _)) if class.starts_with("__tally:") => t.count(&class[8..]),
			Some((class, msg)) => t.bad(class, case_json(j), format!("-f {:?} name '{}' content {} supply {:?} -t {}: {msg}", j.fopt.map(F::name), j.name, contents()[j.content].0, j.supply, j.to.name())),
			None => {}
		}
		if idx % 3001 == 0 {
			t.sample(5, || case_json(j));
		}
	});
	let mut tally = Tally::merge_all(tallies);
	// --- several inputs: '-' at each position, '-' twice, directory, sub-directory paths
	let multi = WorkDir::new("c14-multi");
	super::c13::fixtures(&multi);
	std::fs::create_dir_all(multi.path().join("dir.yaml")).unwrap();
	multi.write("dir.yaml/a.toml", super::c13::GOOD_TOML);
	multi.write("-.json", super::c13::GOOD_JSON);
	let lists: Vec<Vec<&str>> = vec![
		vec!["-", "good.json", "good.yaml"], vec!["good.json", "-", "good.yaml"], vec!["good.json", "good.yaml", "-"],
		vec!["-", "-"], vec!["good.json", "-", "-"], vec!["-", "good.json", "-"], vec!["dir"], vec!["good.json", "dir"], vec!["dir.yaml/a.toml"],
		vec!["good.json", "dir.yaml/a.toml", "good.msgpack"], vec!["--", "-.json"], vec!["good.toml", "good.yaml"], vec!["good.msgpack", "good.json", "good.yaml", "good.toml"],
	];
	for list in &lists {
		for stdin in [super::c13::GOOD_YAML, super::c13::GOOD_JSON, b"[t]\n"] {
			for to in F::ALL {
				for fopt in [None, Some(F::Yaml)] {
					let mut args: Vec<String> = vec![format!("-t{}", to.letter())];
					if let Some(f) = fopt {
						args.push(format!("-f{}", f.letter()));
					}
					args.extend(list.iter().map(|s| s.to_string()));
					let argv: Vec<&str> = args.iter().map(String::as_str).collect();
					// stdin as a pipe and as a regular file (shell redirect)
					for stdin_file in [false, true] {
					let mut sp = Spawn::new(multi.path(), &argv);
					sp.stdin = if stdin_file { Stdin::File(multi.write("stdin-fixture", stdin)) } else { Stdin::Bytes(stdin.to_vec()) };
					let o = proc::run(&sp);
					tally.evaluations += 1;
					tally.count(if stdin_file { "multi-input:stdin-regular-file" } else { "multi-input:lists" });
					let inputs: Vec<String> = list.iter().filter(|s| **s != "--").map(|s| s.to_string()).collect();
					let lib = library_run(multi.path(), &inputs, fopt, to, stdin);
					let good = match (&o.exit, lib.failed_at) {
						(Exit::Code(0), None) => o.stdout == lib.bytes,
						(Exit::Code(1), Some(_)) => o.stdout.starts_with(&lib.complete) && lib.bytes.starts_with(&o.stdout) && o.stderr.starts_with(b"xt error"),
						_ => false,
					};
					if !good {
						tally.bad("multi-input-disagrees-with-library", json!({"kind": "multi", "argv": argv, "stdin": show(stdin), "stdin_file": stdin_file}),
							format!("xt {argv:?} (stdin {} as a {}): {} | library: failed_at={:?} bytes={}", show(stdin), if stdin_file { "regular file" } else { "pipe" }, o.brief(), lib.failed_at, show(&lib.bytes)));
					}
					}
				}
			}
		}
	}
	// --- a bursty producer on stdin: the stream arrives in two packets, split at every offset; the
	// second packet is written only after xt consumed the first and is waiting for more
	let streams: Vec<(&str, &[u8])> = vec![
		("yaml-multi", b"a: 1\n---\nb: 2\n---\nc: 3\n"),
		("json-multi", b"{\"a\":1}\n[2,3]\n\"four\"\n"),
		("msgpack-multi", b"\x81\xa1a\x01\x92\x02\x03\xa4four"),
		("toml", b"[t]\nx = 1\n# c\ny = \"a: b\"\n"),
	];
	let mut pjobs: Vec<(usize, usize, Option<F>, F)> = vec![];
	for (si, (_, data)) in streams.iter().enumerate() {
		for cut in 1..data.len() {
			for fopt in [None, Some([F::Yaml, F::Json, F::Msgpack, F::Toml][si])] {
				for to in [F::Json, F::Yaml] {
					pjobs.push((si, cut, fopt, to));
				}
			}
		}
	}
	let pdir = multi.path().to_path_buf();
	let tp = par_fold(&pjobs, Tally::default, |t, idx, &(si, cut, fopt, to)| {
		let data = streams[si].1;
		let mut args: Vec<String> = vec![format!("-t{}", to.letter())];
		if let Some(f) = fopt {
			args.push(format!("-f{}", f.letter()));
		}
		let argv: Vec<&str> = args.iter().map(String::as_str).collect();
		let mut sp = Spawn::new(&pdir, &argv);
		sp.stdin = Stdin::Packets(vec![data[..cut].to_vec(), data[cut..].to_vec()]);
		sp.release = idx % 2 == 0;
		sp.timeout = std::time::Duration::from_secs(20);
		let o = proc::run(&sp);
		t.evaluations += 1;
		t.count("supply:StdinPackets");
		let lib = run_reader(ChunkReader::new(data, 0), fopt, to);
		let good = match &o.exit {
			Exit::Code(0) => lib.ok && o.stdout == lib.out,
			Exit::Code(1) => !lib.ok,
			_ => false,
		};
		if !good {
			t.bad("packetised-stdin-disagrees-with-library", json!({"kind": "packets", "stream": streams[si].0, "cut": cut, "f": fopt.map(F::name), "to": to.name()}),
				format!("stdin {} delivered as {} + {} (-f {:?} -t {}): {} | library {}", streams[si].0, show(&data[..cut]), show(&data[cut..]), fopt.map(F::name), to.name(), o.brief(), lib.brief()));
		}
	});
	tally.merge(Tally::merge_all(tp));
	let req = |k: &str| (k.to_string(), *tally.counters.get(k).unwrap_or(&0));
	let required = vec![req("supply:StdinPackets"), req("supply:File"), req("supply:Fifo"), req("supply:StdinImplicit"), req("supply:StdinDash"), req("f:absent"), req("f:yaml"), req("multi-input:lists"), req("multi-input:stdin-regular-file")];
	CheckOutput {
		level: "exploration",
		tally,
		rule: format!("full product of -f in {{absent, json, msgpack, toml, yaml}} x {} file names (every letter-casing of json, yaml, yml, toml{}; multi-dot names, hidden '.json', trailing dot, no extension, unknown and misleading extensions) x {} contents (each format, valid in two formats, multi-document, invalid, empty) x supply in {{regular file (mmap), FIFO, implicit stdin, '-'}} x targets (the -f option written before and, for the JSON target, also after the operand), through the real binary (debug and release alternating); expected source = -f, else the (case-insensitive, last) extension, else detection; stdout and exit status must equal the library's result for that source on the same bytes (slice for regular files, reader otherwise). Plus JSON streams of every exact size 2^k-1, 2^k, 2^k+1 around 4 KiB..64 KiB given as a regular file, a FIFO (with and without a telling extension) and on standard input. Plus input lists with '-' first/middle/last, '-' twice, a directory, paths below a directory with a misleading name, compared with one in-process Translator; plus multi-document streams on stdin delivered by a bursty producer in two packets split at EVERY byte offset (second packet only after xt drained the first).", names.len(), if thorough { " and msgpack" } else { " and 6 casings of msgpack" }, ncontents),
		exhaustive: true,
		bounds: json!({"names": names.len(), "contents": ncontents}),
		assumptions: vec!["where the library's slice and reader results differ (C02's known classes) either is accepted and the case is tallied".into()],
		required,
		extra: Default::default(),
	}
}

pub fn replay(case: &Value) -> Option<String> {
	proc::assert_bins();
	if case["kind"] == "multi" {
		return Some("multi-input cases are replayed by re-running the check".into());
	}
	let w = WorkDir::new("c14-replay");
	let cname = case["content"].as_str().unwrap();
	let j = Job {
		f_last: case["f_last"].as_bool().unwrap_or(false),
		fopt: case["f"].as_str().and_then(F::parse),
		name: case["name"].as_str().unwrap().to_string(),
		content: contents().iter().position(|c| c.0 == cname).unwrap(),
		supply: match case["supply"].as_str().unwrap() {
			"File" => Supply::File,
			"Fifo" => Supply::Fifo,
			"StdinDash" => Supply::StdinDash,
			_ => Supply::StdinImplicit,
		},
		to: F::parse(case["to"].as_str().unwrap()).unwrap(),
	};
	for idx in 0..2 {
		let o = run_job(w.path(), &j, idx);
		match judge(&j, &o) {
			Some((class, msg)) if !class.starts_with("__tally:") => return Some(msg),
			_ => {}
		}
	}
	None
}
