//! C06 — round trip and idempotence of xt's own output. No reference implementation needed:
//! xt(B->B)(xt(A->B)(x)) == xt(A->B)(x), and xt(B->A)(xt(A->B)(x)) == xt(A->A)(x).

use serde_json::{json, Value};

use super::common::*;
use crate::model::V;
use crate::report::{CheckOutput, Ctx, Tally};
use crate::run::F;
use crate::spell::{representable, spell_doc, Style};
use crate::util::{fnv, hex, par_fold, show, unhex};
use crate::vals;

pub struct Doc {
	pub v: V,
	pub family: &'static str,
	pub common: bool,
}

pub fn documents(thorough: bool) -> Vec<Doc> {
	let mut docs: Vec<Doc> = super::c01::documents(thorough)
		.into_iter()
		.filter(|d| thorough || !matches!(d.family, "all-scalars-keys"))
		.map(|d| Doc { common: d.family != "nonfinite", v: d.v, family: d.family })
		.collect();
	// large collections (size hints / length headers)
	for len in [15usize, 16, 17, 255, 256, 257, 4095, 4096, 4097, 32768, 65535, 65536, 65537] {
		if len > 5000 && !thorough && len != 65536 && len != 32768 {
			continue;
		}
		docs.push(Doc { v: V::Arr((0..len).map(|i| V::Int((i % 7) as i128)).collect()), family: "sized", common: true });
		docs.push(Doc { v: V::Map((0..len).map(|i| (V::Str(format!("k{i}")), V::Int(1))).collect()), family: "sized", common: true });
		docs.push(Doc { v: V::map(vec![("s", V::Str("x".repeat(len)))]), family: "sized", common: true });
	}
	// documents that straddle libyaml / BufReader buffer sizes with multi-byte characters around them
	// A run of 40 identical multi-byte characters placed across each multiple of 8 KiB, in all
	// alignments, so that the boundary falls inside a character whatever the few header bytes
	// of the format add.
	for boundary in [8192usize, 16384, 24576, 32768] {
		for ch in ["é", "€", "😀"] {
			for align in 0..ch.len() {
				let mut s = "p".repeat(boundary - 60 + align);
				for _ in 0..40 {
					s.push_str(ch);
				}
				s.push_str(&"q".repeat(20000));
				docs.push(Doc { v: V::map(vec![("k", V::Str(s))]), family: "buffer-straddle", common: true });
			}
		}
	}
	// extensions outside the common model
	let ext = vec![
		V::Arr(vec![V::Null, V::Int(1)]),
		V::map(vec![("n", V::Null)]),
		V::Map(vec![(V::Int(1), V::s("int key")), (V::Bool(true), V::s("bool key")), (V::Null, V::s("null key"))]),
		V::Map(vec![(V::Arr(vec![V::Int(1)]), V::s("seq key"))]),
		V::map(vec![("b", V::Bytes(vec![0, 1, 2, 255]))]),
		V::Arr(vec![V::Bytes(vec![])]),
		V::Arr(vec![V::F32(0x3fc00000), V::F32(0x3dcccccd), V::F32(0x7f800000)]),
		V::map(vec![("f", V::F32(0x3dcccccd))]),
		V::Arr(vec![V::Float(f64::NAN.to_bits()), V::Float(f64::INFINITY.to_bits()), V::Float(f64::NEG_INFINITY.to_bits())]),
		V::map(vec![("x", V::Float(f64::NAN.to_bits())), ("y", V::Float(f64::NEG_INFINITY.to_bits()))]),
	];
	for v in ext {
		docs.push(Doc { v, family: "extension", common: false });
	}
	for d in [1usize, 8, 32, 64] {
		docs.push(Doc { v: vals::chain(d, true, true, V::Null), family: "extension", common: false });
	}
	docs
}

/// TOML-only inputs (date-times cannot be spelled from the model).
fn toml_raw_inputs() -> Vec<&'static str> {
	vec![
		"d = 1979-05-27T07:32:00Z\n",
		"d = 1979-05-27T00:32:00.999999-07:00\nl = 1979-05-27T07:32:00\ndate = 1979-05-27\nt = 07:32:00\n",
		"[t]\nd = [1979-05-27, 2000-01-01]\n",
	]
}

fn hop(input: &[u8], from: F, to: F, mode: Mode) -> crate::run::Outcome {
	run_mode(input, Some(from), to, mode)
}

fn check_pair(t: &mut Tally, x: &[u8], a: F, b: F, doc: Option<&Doc>, family: &str) {
	let case = |kind: &str| json!({"kind": kind, "input_hex": hex(x), "input_text": show(x), "a": a.name(), "b": b.name()});
	let y = hop(x, a, b, Mode::Slice);
	t.evaluations += 1;
	if !y.ok {
		t.count("first-hop-refused");
		return;
	}
	t.count(&format!("pair:{}->{}", a.name(), b.name()));
	t.nontrivial(fnv(&[x, a.name().as_bytes(), b.name().as_bytes()]));
	// the first hop itself must not depend on the supply mode (cheap cross-check of C02 on this corpus)
	let y_r = hop(x, a, b, Mode::Reader3);
	t.evaluations += 1;
	if !y_r.ok || y_r.out != y.out {
		t.bad(format!("first-hop-mode-differs:{}->{}", a.name(), b.name()), case("first-hop"), format!("{family}: {} -> {} of {}: slice {} | reader {}", a.name(), b.name(), show(x), y.brief(), y_r.brief()));
	}
	// idempotence: B -> B reproduces the bytes, both modes
	for mode in [Mode::Slice, Mode::ReaderAll, Mode::Reader3] {
		let z = hop(&y.out, b, b, mode);
		t.evaluations += 1;
		if !z.ok || z.out != y.out {
			t.bad(format!("not-idempotent:{}->{}", a.name(), b.name()), case("idempotence"),
				format!("{family}: x={} ({}), y=xt({}->{})(x)={}, xt({}->{})(y) [{}] = {}", show(x), a.name(), a.name(), b.name(), show(&y.out), b.name(), b.name(), mode.name(), z.brief()));
			break;
		}
	}
	// round trip for common-model documents
	let Some(doc) = doc else { return };
	if !doc.common || !representable(&doc.v, a) || !representable(&doc.v, b) {
		return;
	}
	let reference = if b == F::Toml {
		// TOML may reorder: the reference is A -> A of the reordered value
		match spell_doc(a, &doc.v.toml_reordered(), Style(0)) {
			Some(xr) => hop(&xr, a, a, Mode::Slice),
			None => return,
		}
	} else {
		hop(x, a, a, Mode::Slice)
	};
	if !reference.ok {
		t.count("reference-refused");
		return;
	}
	for mode in [Mode::Slice, Mode::Reader3] {
		let back = hop(&y.out, b, a, mode);
		t.evaluations += 1;
		if !back.ok || back.out != reference.out {
			// known finding: the toml crate writes arrays of tables before tables inside nested tables
			if b == F::Toml && back.ok {
				if let Some(xr) = spell_doc(a, &doc.v.toml_reordered().toml_reordered_as_observed(true), Style(0)) {
					let alt = hop(&xr, a, a, Mode::Slice);
					if alt.ok && alt.out == back.out {
						t.bad("toml-nested-array-of-tables-before-tables", case("round-trip"), format!("{family}: x={} via toml comes back as {} (entry order inside a nested table)", show(x), show(&back.out)));
						break;
					}
				}
			}
			t.bad(format!("round-trip-differs:{}->{}->{}", a.name(), b.name(), a.name()), case("round-trip"),
				format!("{family}: x={} via {}: back [{}] {} | direct {}->{} {}", show(x), b.name(), mode.name(), back.brief(), a.name(), a.name(), reference.brief()));
			break;
		}
		t.count("round-trips-compared");
	}
}


/// CLI stage: xt's own outputs, stored as files named by their format's extension, fed back to ONE
/// invocation of the binary in every ordered pair of formats: the result must be the concatenation of
/// what each file gives alone (and a file in the target's own format must come back unchanged).
fn cli_stage(tally: &mut Tally, docs: &[Doc]) {
	use crate::proc::{self, Exit, Spawn, WorkDir};
	proc::assert_bins();
	let w = WorkDir::new("c06-cli");
	let dir = w.path().to_path_buf();
	let mut picks: Vec<&Doc> = vec![];
	for fam in ["tree", "ints", "strings", "depth", "floats"] {
		picks.extend(docs.iter().filter(|d| d.family == fam && d.common && matches!(d.v, V::Map(_)) && d.v.dump().len() < 4000 && F::ALL.iter().all(|&f| representable(&d.v, f))).take(2));
	}
	let run = |argv: &[String]| {
		let args: Vec<&str> = argv.iter().map(|s| s.as_str()).collect();
		proc::run(&Spawn::new(&dir, &args))
	};
	// own outputs y[i][f]
	let mut y: Vec<Vec<Option<String>>> = vec![];
	for (i, d) in picks.iter().enumerate() {
		let Some(src) = spell_doc(F::Json, &d.v, Style(0)) else {
			y.push(vec![None; 4]);
			continue;
		};
		w.write(&format!("src{i}.json"), &src);
		let mut row = vec![];
		for f in F::ALL {
			let o = run(&[format!("-t{}", f.letter()), format!("src{i}.json")]);
			if o.exit == Exit::Code(0) {
				let name = format!("own{i}.{}", f.name());
				w.write(&name, &o.stdout);
				row.push(Some(name));
			} else {
				row.push(None);
			}
		}
		y.push(row);
	}
	let n = picks.len();
	if n < 4 {
		return;
	}
	let case_of = |argv: &[String], want: &[u8]| {
		let files: Vec<Value> = argv[1..].iter().map(|nm| json!({"name": nm, "hex": hex(&std::fs::read(dir.join(nm)).unwrap_or_default())})).collect();
		json!({"kind": "cli-own-output", "argv": argv, "files": files, "expected_hex": hex(want)})
	};
	// alone[(i, f, b)]
	let mut alone = std::collections::HashMap::new();
	for i in 0..n {
		for (fi, f) in F::ALL.iter().enumerate() {
			let Some(name) = &y[i][fi] else { continue };
			for b in F::ALL {
				let argv = vec![format!("-t{}", b.letter()), name.clone()];
				let o = run(&argv);
				tally.evaluations += 1;
				tally.count("cli-own-output-alone");
				if *f == b {
					let own = std::fs::read(dir.join(name)).unwrap();
					if o.exit != Exit::Code(0) || o.stdout != own {
						tally.bad(format!("cli-own-output-not-a-fixed-point:{}", b.name()), case_of(&argv, &own), format!("xt {argv:?}: {} but the file holds {}", o.brief(), show(&own)));
					}
				}
				if o.exit == Exit::Code(0) {
					alone.insert((i, fi, b), o.stdout);
				}
			}
		}
	}
	let mut jobs: Vec<(Vec<String>, Vec<u8>, F)> = vec![];
	for b in [F::Json, F::Msgpack, F::Yaml] {
		for k in 0..4 {
			for l in 0..4 {
				for i in 0..n {
					let j = (i + 1 + k + l) % n;
					let (Some(na), Some(nb)) = (&y[i][k], &y[j][l]) else { continue };
					let (Some(a1), Some(a2)) = (alone.get(&(i, k, b)), alone.get(&(j, l, b))) else { continue };
					let mut want = a1.clone();
					want.extend_from_slice(a2);
					jobs.push((vec![format!("-t{}", b.letter()), na.clone(), nb.clone()], want, b));
				}
			}
		}
	}
	let results = par_fold(&jobs, Tally::default, |t, _, (argv, want, b)| {
		let o = run(argv);
		t.evaluations += 1;
		t.count("cli-own-output-pairs");
		t.nontrivial(fnv(&[argv.join(" ").as_bytes()]));
		if o.exit != Exit::Code(0) || &o.stdout != want {
			t.bad(format!("cli-own-outputs-together-differ-from-alone:{}", b.name()), case_of(argv, want), format!("xt {argv:?}: {} but the two files alone give {}", o.brief(), show(want)));
		}
	});
	for r in results {
		tally.merge(r);
	}
}

pub fn run(ctx: &Ctx) -> CheckOutput {
	let thorough = ctx.thorough();
	let docs = documents(thorough);
	let tallies = par_fold(&docs, Tally::default, |t, idx, doc| {
		let heavy = matches!(doc.family, "all-scalars" | "all-scalars-keys" | "floats" | "buffer-straddle");
		for a in F::ALL {
			let styles: &[u32] = if heavy && !thorough { &[0] } else { &[0, 1] };
			for &st in styles {
				let Some(x) = spell_doc(a, &doc.v, Style(st)) else { continue };
				for b in F::ALL {
					check_pair(t, &x, a, b, Some(doc), doc.family);
				}
			}
		}
		t.count(&format!("family:{}", doc.family));
		if idx % 1499 == 0 {
			t.sample(6, || {
				let s = doc.v.dump();
				json!({"family": doc.family, "value": s[..s.len().min(100)].to_string()})
			});
		}
	});
	let mut tally = Tally::merge_all(tallies);
	for raw in toml_raw_inputs() {
		for b in F::ALL {
			check_pair(&mut tally, raw.as_bytes(), F::Toml, b, None, "toml-datetime");
		}
		tally.count("family:toml-datetime");
	}
	cli_stage(&mut tally, &docs);
	let req = |k: &str| (k.to_string(), *tally.counters.get(k).unwrap_or(&0));
	let mut required = vec![req("cli-own-output-pairs"), req("round-trips-compared"), req("family:extension"), req("family:toml-datetime"), req("family:buffer-straddle")];
	for s in F::ALL {
		for t in F::ALL {
			required.push(req(&format!("pair:{}->{}", s.name(), t.name())));
		}
	}
	CheckOutput {
		level: "exploration",
		tally,
		rule: "documents: the C01 corpus + collections sized around every length-header/size-hint boundary (15..65537) + strings that put multi-byte characters across 8 KiB/16 KiB/24 KiB buffer edges + extensions (nulls, non-string and composite keys, binary, f32, non-finite floats, null-leaf depth chains, TOML date-times); for every ordered pair (A,B) and two spellings: y = xt(A->B)(x); whenever that succeeds, xt(B->B)(y) must reproduce y byte for byte from slice, reader(all) and reader(3-byte reads), the first hop must not depend on the supply mode, and for common-model documents xt(B->A)(y) must equal xt(A->A)(x) byte for byte (B = TOML: xt(A->A) of the table-reordered value). CLI stage: for 10 small documents the binary's own output in each format is stored as a file named by extension; each file alone must come back unchanged in its own format, and every ordered pair of formats given to ONE invocation must produce the concatenation of what the two files give alone (3 streaming targets). Non-trivial = first hop succeeded; distinct by (input, A, B).".into(),
		exhaustive: true,
		bounds: json!({"pairs": 16, "styles_per_source": 2}),
		assumptions: vec!["the oracle is metamorphic (xt against itself); no external reader is trusted here".into()],
		required,
		extra: Default::default(),
	}
}

pub fn replay(case: &Value) -> Option<String> {
	if case["kind"] == "cli-own-output" {
		crate::proc::assert_bins();
		let w = crate::proc::WorkDir::new("c06-replay");
		for f in case["files"].as_array().unwrap() {
			w.write(f["name"].as_str().unwrap(), &unhex(f["hex"].as_str().unwrap()));
		}
		let argv: Vec<String> = case["argv"].as_array().unwrap().iter().map(|a| a.as_str().unwrap().to_string()).collect();
		let args: Vec<&str> = argv.iter().map(|s| s.as_str()).collect();
		let o = crate::proc::run(&crate::proc::Spawn::new(w.path(), &args));
		let want = unhex(case["expected_hex"].as_str().unwrap());
		return (o.exit != crate::proc::Exit::Code(0) || o.stdout != want).then(|| format!("{} but expected {}", o.brief(), show(&want)));
	}
	let x = unhex(case["input_hex"].as_str().unwrap());
	let a = F::parse(case["a"].as_str().unwrap()).unwrap();
	let b = F::parse(case["b"].as_str().unwrap()).unwrap();
	let y = hop(&x, a, b, Mode::Slice);
	if !y.ok {
		return None;
	}
	match case["kind"].as_str().unwrap_or("") {
		"first-hop" => {
			let r = hop(&x, a, b, Mode::Reader3);
			(!r.ok || r.out != y.out).then(|| format!("slice {} | reader {}", y.brief(), r.brief()))
		}
		"round-trip" => {
			let reference = hop(&x, a, a, Mode::Slice);
			for mode in [Mode::Slice, Mode::Reader3] {
				let back = hop(&y.out, b, a, mode);
				if b != F::Toml && (!back.ok || back.out != reference.out) {
					return Some(format!("back {} | direct {}", back.brief(), reference.brief()));
				}
			}
			None
		}
		_ => {
			for mode in [Mode::Slice, Mode::ReaderAll, Mode::Reader3] {
				let z = hop(&y.out, b, b, mode);
				if !z.ok || z.out != y.out {
					return Some(format!("y={} but xt(B->B)(y) [{}] = {}", show(&y.out), mode.name(), z.brief()));
				}
			}
			None
		}
	}
}
