//! C04 — totality: no panic, abort, stack overflow or hang on any input.
//! (I)x(S) with crash isolation: the sweep runs in worker sub-processes on their default 8 MiB main
//! stack with a progress file; a lost worker is a finding of the job in flight.

use serde_json::{json, Value};

use super::common::*;
use crate::env::{explore, SchedReader};
use crate::gen;
use crate::model::V;
use crate::proc::{self, Exit, Spawn, Stdin, WorkDir};
use crate::report::{CheckOutput, Ctx, Tally};
use crate::run::{fname, run_reader, run_slice, ChunkReader, F};
use crate::spell::{spell_doc, Style};
use crate::util::{fnv, hex, show, unhex};
use crate::vals;

pub struct Job {
	pub input: Vec<u8>,
	pub family: &'static str,
	/// sources to try (None = detection); empty = all five
	pub srcs: Vec<Option<F>>,
	pub heavy: bool,
}

fn bracket_nest(open: &[u8], close: &[u8], leaf: &[u8], d: usize) -> Vec<u8> {
	let mut v = Vec::with_capacity(d * (open.len() + close.len()) + leaf.len());
	for _ in 0..d {
		v.extend_from_slice(open);
	}
	v.extend_from_slice(leaf);
	for _ in 0..d {
		v.extend_from_slice(close);
	}
	v
}

pub fn jobs(thorough: bool) -> Vec<Job> {
	let mut out: Vec<Job> = vec![];
	let all: Vec<Option<F>> = vec![Some(F::Json), Some(F::Msgpack), Some(F::Toml), Some(F::Yaml), None];
	// token sequences one step deeper than C02's quick tier, seeds and their single edits, prefixes
	for f in F::ALL {
		let k = match (f, thorough) {
			(F::Json, false) => 4,
			(F::Json, true) => 5,
			(_, false) => 3,
			(_, true) => 4,
		};
		for s in gen::token_seqs(&gen::alphabet(f), k) {
			out.push(Job { input: s, family: "tokens", srcs: vec![Some(f), None], heavy: false });
		}
		let seeds = gen::seeds(f);
		let mut ed = vec![];
		for s in &seeds {
			for i in 0..=s.len() {
				ed.push(s[..i].to_vec());
			}
			ed.extend(gen::single_edits(s, if thorough { 300 } else { 40 }));
		}
		for e in gen::dedup(ed) {
			out.push(Job { input: e, family: "seed-edits-and-prefixes", srcs: all.clone(), heavy: false });
		}
		if f == F::Yaml {
			for l in gen::yaml_layouts(thorough) {
				out.push(Job { input: l.bytes, family: "size-ladder", srcs: vec![Some(f), None], heavy: false });
			}
		}
		for l in gen::sized_streams(f, thorough) {
			out.push(Job { input: l.bytes, family: "size-ladder", srcs: vec![Some(f), None], heavy: false });
		}
		for e in gen::linebreak_variants(f) {
			out.push(Job { input: e, family: "seed-edits-and-prefixes", srcs: all.clone(), heavy: false });
		}
	}
	for b in gen::all_bytes(2) {
		out.push(Job { input: b, family: "all-bytes<=2", srcs: if thorough { all.clone() } else { vec![None, Some(F::Msgpack), Some(F::Yaml)] }, heavy: false });
	}
	out.push(Job { input: vec![], family: "empty", srcs: all.clone(), heavy: false });
	// nesting of every bracket kind
	let depths: Vec<usize> = if thorough { (1..=2000).step_by(7).chain([10_000, 100_000, 1_000_000]).collect() } else { vec![1, 64, 127, 128, 129, 200, 1000, 1023, 1024, 1025, 2000, 10_000, 100_000] };
	for &d in &depths {
		let heavy = d > 2000;
		out.push(Job { input: bracket_nest(b"[", b"]", b"1", d), family: "nesting", srcs: vec![Some(F::Json), Some(F::Yaml), None], heavy });
		out.push(Job { input: bracket_nest(b"{\"a\":", b"}", b"1", d), family: "nesting", srcs: vec![Some(F::Json), None], heavy });
		if d <= 10_000 {
			out.push(Job { input: bracket_nest(b"{a: ", b"}", b"1", d), family: "nesting", srcs: vec![Some(F::Yaml), None], heavy });
			out.push(Job { input: bracket_nest(b"- ", b"", b"1\n", d), family: "nesting", srcs: vec![Some(F::Yaml), None], heavy });
		}
		let mut t = b"a = ".to_vec();
		t.extend(bracket_nest(b"[", b"]", b"1", d));
		out.push(Job { input: t, family: "nesting", srcs: vec![Some(F::Toml), None], heavy });
		let mut t = b"a = ".to_vec();
		t.extend(bracket_nest(b"{b = ", b"}", b"1", d));
		out.push(Job { input: t, family: "nesting", srcs: vec![Some(F::Toml), None], heavy });
		let mut t = b"[".to_vec();
		t.extend(std::iter::repeat(&b"a."[..]).take(d).flatten());
		t.extend_from_slice(b"a]\n");
		out.push(Job { input: t, family: "nesting", srcs: vec![Some(F::Toml), None], heavy });
		out.push(Job { input: bracket_nest(&[0x91], b"", &[0x01], d), family: "nesting", srcs: vec![Some(F::Msgpack), None], heavy });
		out.push(Job { input: bracket_nest(&[0x81, 0xa1, b'k'], b"", &[0x01], d), family: "nesting", srcs: vec![Some(F::Msgpack), None], heavy });
		out.push(Job { input: bracket_nest(&[0x81], &[0x01], &[0x01], d), family: "nesting", srcs: vec![Some(F::Msgpack), None], heavy });
		for open in [&[0xdcu8, 0, 1][..], &[0xdd, 0, 0, 0, 1], &[0xde, 0, 1, 0xa1, b'k'], &[0xdf, 0, 0, 0, 1, 0xa1, b'k']] {
			out.push(Job { input: bracket_nest(open, b"", &[0x01], d), family: "nesting", srcs: vec![Some(F::Msgpack), None], heavy });
		}
		// unclosed
		out.push(Job { input: b"[".repeat(d), family: "nesting", srcs: vec![Some(F::Json), Some(F::Yaml), None], heavy });
		out.push(Job { input: [0x91].repeat(d), family: "nesting", srcs: vec![Some(F::Msgpack), None], heavy });
	}
	// MessagePack headers that declare huge lengths
	for marker in [0xc4u8, 0xc5, 0xc6, 0xc7, 0xc8, 0xc9, 0xd9, 0xda, 0xdb, 0xdc, 0xdd, 0xde, 0xdf] {
		let width = match marker {
			0xc4 | 0xc7 | 0xd9 => 1,
			0xc5 | 0xc8 | 0xda | 0xdc | 0xde => 2,
			_ => 4,
		};
		for len in [0u64, 1, 15, 16, 255, 256, 65535, 65536, 1 << 31, (1 << 32) - 1] {
			if len >= 1 << (8 * width) {
				continue;
			}
			for payload in 0..=3usize {
				for wrap in [false, true] {
					let mut v = vec![];
					if wrap {
						v.push(0x92);
						v.push(0x01);
					}
					v.push(marker);
					v.extend_from_slice(&len.to_be_bytes()[8 - width..]);
					v.extend(std::iter::repeat(0x01).take(payload));
					out.push(Job { input: v, family: "msgpack-declared-lengths", srcs: vec![Some(F::Msgpack), None], heavy: false });
				}
			}
		}
	}
	// YAML anchors and alias bombs
	for fan in [1usize, 2, 5, 9] {
		for depth in [1usize, 2, 5, 9] {
			let mut s = String::from("a0: &a0 [x");
			for _ in 1..fan {
				s.push_str(", x");
			}
			s.push_str("]\n");
			for lvl in 1..=depth {
				s.push_str(&format!("a{lvl}: &a{lvl} [*a{}", lvl - 1));
				for _ in 1..fan {
					s.push_str(&format!(", *a{}", lvl - 1));
				}
				s.push_str("]\n");
			}
			out.push(Job { input: s.into_bytes(), family: "yaml-alias-bombs", srcs: vec![Some(F::Yaml), None], heavy: fan * depth > 40 });
		}
	}
	for s in ["*a", "&a", "&a *a", "a: &a\n  b: *a\n", "&a [*a]", "- &x\n- *x\n- *y\n", "? &k a\n: *k\n", "&a &b c", "*a: 1", "a: *a", "&a : &b", "--- &a\n...\n--- *a\n", "<<: *a", "a: &a {<<: *a}"] {
		out.push(Job { input: s.as_bytes().to_vec(), family: "yaml-anchors", srcs: vec![Some(F::Yaml), None], heavy: false });
	}
	// UTF-16/32 YAML whose multi-byte characters sit across the re-encoder's / parser's buffer edges
	for boundary in [8192usize, 16384, 24576] {
		for ch in ["é", "€", "😀"] {
			for align in 0..4usize {
				let mut text = format!("k: \"{}", "p".repeat(boundary - 40 + align));
				for _ in 0..24 {
					text.push_str(ch);
				}
				text.push_str(&"q".repeat(3000));
				text.push_str("\"\n");
				for enc in 0..4u32 {
					out.push(Job { input: super::c01::encode_text(&text, enc), family: "utf16/32-yaml-buffer-edges", srcs: vec![Some(F::Yaml), None], heavy: false });
				}
			}
		}
	}
	// valid inputs paired with targets that must refuse them: the refused value at every node path
	let trees = vals::trees(if thorough { 5 } else { 4 }, &[V::Int(1), V::s("a")], &["a", "b", "c", "d"]);
	let bads = [V::Null, V::Bytes(vec![0xff]), V::Float(f64::NAN.to_bits()), V::Int((1 << 64) - 1), V::Map(vec![(V::Null, V::Int(1))]), V::Map(vec![(V::Arr(vec![]), V::Int(1))]), V::F32(0x7fc00000)];
	for t in trees.iter().filter(|t| t.is_collection()) {
		for b in &bads {
			let mut planted = vec![];
			plant(t, b, &mut planted);
			for v in planted {
				for src in [F::Json, F::Yaml, F::Msgpack] {
					if let Some(bytes) = spell_doc(src, &v, Style(0)) {
						out.push(Job { input: bytes, family: "refused-value-at-every-node", srcs: vec![Some(src)], heavy: false });
					}
				}
			}
		}
	}
	out
}

fn plant(v: &V, bad: &V, out: &mut Vec<V>) {
	fn go(v: &V, bad: &V, rebuild: &dyn Fn(V) -> V, out: &mut Vec<V>) {
		out.push(rebuild(bad.clone()));
		match v {
			V::Arr(a) => {
				for i in 0..a.len() {
					let a2 = a.clone();
					go(&a[i], bad, &|x| { let mut b = a2.clone(); b[i] = x; rebuild(V::Arr(b)) }, out);
				}
			}
			V::Map(m) => {
				for i in 0..m.len() {
					let m2 = m.clone();
					go(&m[i].1, bad, &|x| { let mut b = m2.clone(); b[i].1 = x; rebuild(V::Map(b)) }, out);
				}
			}
			_ => {}
		}
	}
	go(v, bad, &|x| x, out);
}

fn case_of(job: &Job, from: Option<F>, to: F, mode: &str, chunk: usize, choices: &[u16]) -> Value {
	json!({"kind": "totality", "family": job.family, "input_hex": if job.input.len() <= 2048 { hex(&job.input) } else { String::new() }, "input_len": job.input.len(),
		"input_head": show(&job.input[..job.input.len().min(60)]), "from": fname(from), "to": to.name(), "mode": mode, "policy_chunk": chunk, "choices": choices})
}

fn run_job(t: &mut Tally, job: &Job, d: usize) {
	let input = &job.input[..];
	for &from in &job.srcs {
		for to in F::ALL {
			if job.heavy && to != F::Json && to != F::Toml {
				continue;
			}
			let s = run_slice(input, from, to);
			t.evaluations += 1;
			if let Some(p) = &s.panic {
				t.bad(format!("panic:{}", job.family), case_of(job, from, to, "slice", 0, &[]), format!("{} input {} from={} to={} (slice) panicked: {p}", job.family, show(&input[..input.len().min(80)]), fname(from), to.name()));
			}
			t.nontrivial(fnv(&[input, fname(from).as_bytes(), to.name().as_bytes()]));
			if job.heavy || input.len() > 4096 {
				let r = run_reader(ChunkReader::new(input, 0), from, to);
				t.evaluations += 1;
				if let Some(p) = &r.panic {
					t.bad(format!("panic:{}", job.family), case_of(job, from, to, "reader", 0, &[]), format!("{} input of {} bytes from={} to={} (reader) panicked: {p}", job.family, input.len(), fname(from), to.name()));
				}
				continue;
			}
			// a source that is interrupted once (EINTR: "try again") at the start, right after the bytes the
			// first trials look at, in the middle and at the end: still no panic and no endless retry (a
			// run that never returns is caught by the worker's stall watchdog)
			if to == F::Json && input.len() <= 600 {
				let mut ks = vec![0, 4.min(input.len()), 5.min(input.len()), input.len() / 2, input.len()];
				ks.sort_unstable();
				ks.dedup();
				for k in ks {
					let r = run_reader(crate::env::InterruptOnceReader::new(input, k, 0), from, to);
					t.evaluations += 1;
					t.count("reader-interrupted-once");
					if let Some(p) = &r.panic {
						t.bad(format!("panic:{}", job.family), case_of(job, from, to, "reader-interrupted-once", k, &[]), format!("{} input {} from={} to={} (reader interrupted once after {k} bytes) panicked: {p}", job.family, show(&input[..input.len().min(80)]), fname(from), to.name()));
					}
				}
			}
			let marks = newline_marks(input);
			for chunk in [0usize, 1] {
				let pol = policy(chunk, true, false, &marks);
				let dd = if input.len() <= 6 && chunk == 0 { 64 } else if to == F::Json && chunk == 0 { d } else { 0 };
				let st = explore(dd, 500, |env| {
					let r = run_reader(SchedReader::new(input, env, pol.clone()), from, to);
					t.evaluations += 1;
					if let Some(p) = &r.panic {
						let choices = env.borrow().choices();
						t.bad(format!("panic:{}", job.family), case_of(job, from, to, "reader", chunk, &choices), format!("{} input {} from={} to={} (reader chunk {chunk} choices {choices:?}) panicked: {p}", job.family, show(&input[..input.len().min(80)]), fname(from), to.name()));
					}
				});
				t.states += st.runs;
				t.transitions += st.points;
				t.traces += st.runs;
			}
		}
	}
	t.count(&format!("family:{}", job.family));
}

/// Worker entry: `xtmc worker C04 <tier> <part> <nparts> <start> <progress>`.
pub fn worker(tier: &str, part: usize, nparts: usize, start: usize, progress: &str) {
	crate::isolate::limit_address_space(24);
	let thorough = tier == "thorough";
	let jobs = jobs(thorough);
	let prog = crate::isolate::Progress::open(progress);
	let mut t = Tally::default();
	let mut i = start;
	let _ = part;
	while i < jobs.len() {
		prog.set(i as u64);
		run_job(&mut t, &jobs[i], 1);
		if i % 7919 == 0 {
			let j = &jobs[i];
			t.sample(2, || json!({"family": j.family, "input": show(&j.input[..j.input.len().min(80)]), "len": j.input.len()}));
		}
		i += nparts;
	}
	std::fs::write(format!("{progress}.tally"), crate::isolate::tally_to_json(&t).to_string()).expect("MACHINERY: cannot write tally");
}

pub fn run(ctx: &Ctx) -> CheckOutput {
	let thorough = ctx.thorough();
	let all = jobs(thorough);
	let njobs = all.len();
	let exe = std::env::current_exe().expect("current_exe");
	let merged = crate::isolate::run_isolated(&exe, &[], "C04", &ctx.tier, crate::util::threads(), njobs, std::time::Duration::from_secs(90), &|idx| {
		let j = &all[idx];
		(json!({"kind": "totality-job", "job_index": idx, "family": j.family, "input_hex": if j.input.len() <= 2048 { hex(&j.input) } else { String::new() }, "input_len": j.input.len()}),
			format!("{} input #{idx} ({} bytes, starts {})", j.family, j.input.len(), show(&j.input[..j.input.len().min(60)])))
	});
	let mut tally = merged.tally;
	for i in 0..merged.distinct_sum {
		tally.distinct.insert(i);
	}
	// ---- the real binaries on the adversarial families: the only signal xt may die from is SIGPIPE
	proc::assert_bins();
	let w = WorkDir::new("c04");
	let bin_jobs: Vec<&Job> = all.iter().filter(|j| matches!(j.family, "nesting" | "msgpack-declared-lengths" | "yaml-alias-bombs" | "yaml-anchors" | "empty")).filter(|j| j.input.len() <= 250_000 || thorough).collect();
	let bt = crate::util::par_fold(&bin_jobs, Tally::default, |t, idx, j| {
		let name = format!("in-{idx}");
		std::fs::write(w.path().join(&name), &j.input).unwrap();
		for &from in &j.srcs {
			for release in [false, true] {
				for via_stdin in [false, true] {
					let mut args: Vec<String> = vec!["-tj".into()];
					if let Some(f) = from {
						args.push(format!("-f{}", f.letter()));
					}
					if !via_stdin {
						args.push(name.clone());
					}
					let a: Vec<&str> = args.iter().map(String::as_str).collect();
					let mut sp = Spawn::new(w.path(), &a);
					if via_stdin {
						sp.stdin = Stdin::Bytes(j.input.clone());
					}
					sp.release = release;
					sp.timeout = std::time::Duration::from_secs(120);
					let o = proc::run(&sp);
					t.evaluations += 1;
					t.count(if release { "binary:release" } else { "binary:debug" });
					match o.exit {
						Exit::Code(0) | Exit::Code(1) => {}
						other => t.bad(format!("binary-died:{}", j.family), json!({"kind": "binary", "family": j.family, "input_hex": if j.input.len() <= 2048 { hex(&j.input) } else { String::new() }, "input_len": j.input.len(), "from": fname(from), "release": release, "stdin": via_stdin}),
							format!("{} binary on {} input ({} bytes, starts {}) from={} via {}: {other}; stderr {}", if release { "release" } else { "debug" }, j.family, j.input.len(), show(&j.input[..j.input.len().min(40)]), fname(from), if via_stdin { "stdin" } else { "file" }, show(&o.stderr))),
					}
				}
			}
		}
		let _ = std::fs::remove_file(w.path().join(&name));
	});
	tally.merge(Tally::merge_all(bt));
	let req = |k: &str| (k.to_string(), *tally.counters.get(k).unwrap_or(&0));
	let required = vec![
		req("family:tokens"), req("family:seed-edits-and-prefixes"), req("family:all-bytes<=2"), req("family:nesting"), req("family:msgpack-declared-lengths"),
		req("family:yaml-alias-bombs"), req("family:yaml-anchors"), req("family:refused-value-at-every-node"), req("family:empty"), req("family:utf16/32-yaml-buffer-edges"), req("binary:debug"), req("binary:release"), req("reader-interrupted-once"),
	];
	CheckOutput {
		level: "exploration",
		tally,
		rule: format!("{njobs} inputs (every input of <= 600 bytes also from a source that reports Interrupted once at offset 0 / 4 / 5 / middle / end): all token sequences per format (one step deeper than C02's quick tier in the thorough tier), every prefix and single-edit neighbour of the seed corpus, all byte strings <= 2, empty input; adversarial families enumerated completely: nesting of every bracket kind of every format (closed and unclosed, depths up to 10^5{}), every MessagePack header with a declared length in {{0,1,15,16,255,256,65535,65536,2^31,2^32-1}} followed by 0-3 payload bytes (bare and inside an array), UTF-16/32 YAML with multi-byte characters across the 8/16/24 KiB buffer edges in every alignment, YAML alias bombs (fan-out and depth in {{1,2,5,9}}), lone / undefined / self-referential anchors, and a value the target refuses (null, binary, NaN, 2^64-1, null key, array key, f32 NaN) planted at every node of every collection tree; each x source selections (named and detected) x 4 targets x slice and reader (all chunkings for inputs <= 6 bytes, two default policies, <= 1 deviation towards JSON). Runs in {} worker processes on their default main-thread stack with RLIMIT_AS = 24 GiB: a caught panic, a worker killed by a signal (abort, stack overflow, allocation failure) or 90 s without progress is a violation attributed to the job in flight. The adversarial families also go through the debug and release binaries (file and stdin): exit status 0 or 1 only.", if thorough { " and 10^6" } else { "" }, crate::util::threads()),
		exhaustive: true,
		bounds: json!({"deviations": 1, "watchdog_s": 90}),
		assumptions: vec!["termination is judged by a 90 s no-progress watchdog (the slowest legitimate job measured takes under 10 s)".into()],
		required,
		extra: Default::default(),
	}
}

pub fn replay(case: &Value) -> Option<String> {
	let hexs = case["input_hex"].as_str().unwrap_or("");
	if hexs.is_empty() && case["input_len"].as_u64().unwrap_or(0) > 0 {
		return Some("input too large for the replay file; re-run the check".into());
	}
	let input = unhex(hexs);
	let job = Job { input, family: "replay", srcs: match case["from"].as_str() { Some(f) => vec![F::parse(f)], None => vec![Some(F::Json), Some(F::Msgpack), Some(F::Toml), Some(F::Yaml), None] }, heavy: false };
	// replay in a child so that an abort is observable
	let mut t = Tally::default();
	run_job(&mut t, &job, 1);
	t.bad.into_iter().next().map(|(_, (_, b))| b.detail)
}
