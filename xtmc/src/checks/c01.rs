//! C01 — cross-format value fidelity. (I): bounded-exhaustive documents x spellings x 16 pairs x
//! supply modes x explicit/detected, read back by independent readers.

use serde_json::{json, Value};

use super::common::*;
use crate::model::V;
use crate::report::{CheckOutput, Ctx, Tally};
use crate::run::{detect_slice, fname, F};
use crate::spell::{representable, spell_doc, style_count, Style};
use crate::tomlcheck::TomlBatch;
use crate::util::{fnv, par_fold, show};
use crate::vals;

pub struct Doc {
	pub v: V,
	pub family: &'static str,
}

pub fn documents(thorough: bool) -> Vec<Doc> {
	let mut docs = vec![];
	let mut push = |v: V, family: &'static str| docs.push(Doc { v, family });
	// (a) all small trees
	let n = if thorough { 5 } else { 4 };
	for t in vals::trees(n, &vals::small_scalars(), &vals::key_alphabet()) {
		push(t, "tree");
	}
	// (b) integers
	let ints = vals::int_family();
	push(V::Arr(ints.iter().map(|&i| V::Int(i)).collect()), "ints");
	push(V::Map(ints.iter().enumerate().map(|(k, &i)| (V::Str(format!("k{k}")), V::Int(i))).collect()), "ints");
	let small: Vec<i128> = ints.iter().copied().filter(|&i| i <= i128::from(i64::MAX)).collect();
	push(V::Map(small.iter().enumerate().map(|(k, &i)| (V::Str(format!("k{k}")), V::Int(i))).collect()), "ints");
	for &i in &ints {
		push(V::Map(vec![(V::s("v"), V::Int(i))]), "ints");
	}
	// (c) floats
	let mut floats = vals::float_family(if thorough { 1 } else { 16 });
	floats.extend(vals::scrambled_floats(if thorough { 200_000 } else { 6_000 }));
	for chunk in floats.chunks(256) {
		push(V::Arr(chunk.iter().map(|&b| V::Float(b)).collect()), "floats");
		push(V::Map(vec![(V::s("f"), V::Arr(chunk.iter().map(|&b| V::Float(b)).collect()))]), "floats");
	}
	for b in [f64::NAN.to_bits(), f64::INFINITY.to_bits(), f64::NEG_INFINITY.to_bits()] {
		push(V::Map(vec![(V::s("x"), V::Float(b))]), "nonfinite");
		push(V::Arr(vec![V::Float(b), V::Int(1)]), "nonfinite");
	}
	// (d) strings
	let strs = vals::string_family();
	push(V::Arr(strs.iter().map(|s| V::s(s)).collect()), "strings");
	push(V::Map(strs.iter().enumerate().map(|(i, s)| (V::Str(format!("k{i}")), V::s(s))).collect()), "strings");
	push(V::Map(strs.iter().enumerate().map(|(i, s)| (V::s(s), V::Int(i as i128))).collect()), "string-keys");
	for s in &strs {
		push(V::Map(vec![(V::s(s), V::s(s))]), "strings");
		push(V::Arr(vec![V::s(s)]), "strings");
	}
	let scalars = vals::all_scalar_strings(64);
	let per_doc = 64;
	for (ci, chunk) in scalars.chunks(per_doc).enumerate() {
		push(V::Arr(chunk.iter().map(|s| V::s(s)).collect()), "all-scalars");
		if thorough || ci % 4 == 0 {
			push(V::Map(chunk.iter().enumerate().map(|(i, s)| (V::s(s), V::Int(i as i128))).collect()), "all-scalars-keys");
		}
	}
	// (d') collections around the length-header / size-hint boundaries
	for len in [15usize, 16, 17, 255, 256, 257, 4095, 4096, 4097, 32768, 65535, 65536] {
		if len > 5000 && !thorough {
			continue;
		}
		push(V::Arr((0..len).map(|i| V::Int((i % 9) as i128)).collect()), "sized");
		push(V::Map((0..len).map(|i| (V::Str(format!("k{i}")), V::Int((i % 5) as i128))).collect()), "sized");
		push(V::map(vec![("inner", V::Arr((0..len).map(|i| V::Int((i % 9) as i128)).collect())), ("after", V::s("x"))]), "sized");
	}
	// (e) depth chains
	for d in [1, 2, 3, 8, 16, 32, 63, 64] {
		for (maps, alt) in [(false, false), (true, false), (false, true)] {
			let c = vals::chain(d, maps, alt, V::Int(7));
			// root must be a map for TOML sources: wrap array chains too
			push(c.clone(), "depth");
			push(V::Map(vec![(V::s("r"), c)]), "depth");
		}
	}
	docs
}

pub fn expected_for(v: &V, to: F) -> Option<V> {
	if !representable(v, to) {
		return None;
	}
	Some(if to == F::Toml { v.toml_reordered() } else { v.clone() })
}

struct Acc {
	t: Tally,
	toml: TomlBatch,
}

fn judge(acc: &mut Acc, input: &[u8], from: Option<F>, to: F, mode: Mode, expected: &V, what: &str) {
	let o = run_mode(input, from, to, mode);
	acc.t.evaluations += 1;
	let exp = vec![expected.dump()];
	let case = model_case(input, from, to, mode, &exp);
	if !o.ok {
		acc.t.bad(
			format!("translation-failed:{}->{}", what, to.name()),
			case,
			format!("{what} from={} to={} {}: input {} failed: {}", fname(from), to.name(), mode.name(), show(input), o.brief()),
		);
		return;
	}
	if to == F::Toml {
		acc.toml.push(Some(exp[0].clone()), o.out, format!("{what} from={} {} input {}", fname(from), mode.name(), show(input)), case);
		return;
	}
	match read_output_values(to, &o.out) {
		Err(e) => acc.t.bad(format!("unreadable-output:{}", to.name()), case, format!("{what} from={} to={} {}: output {} unreadable: {e}", fname(from), to.name(), mode.name(), show(&o.out))),
		Ok(d) => {
			for (class, msg) in diff_classes(&d, std::slice::from_ref(expected)) {
				acc.t.bad(
					format!("{class}:{}->{}", src_of(what), to.name()),
					case.clone(),
					format!("{what} from={} to={} {}: input {} output {}: {msg}", fname(from), to.name(), mode.name(), show(input), show(&o.out)),
				);
			}
		}
	}
}

fn src_of(what: &str) -> &str {
	what.split(':').nth(1).unwrap_or("?")
}

/// 0: UTF-16LE, 1: UTF-16BE with BOM, 2: UTF-32BE, 3: UTF-32LE with BOM
pub fn encode_text(text: &str, enc: u32) -> Vec<u8> {
	let mut out = vec![];
	match enc {
		0 | 1 => {
			if enc == 1 {
				out.extend_from_slice(&[0xFE, 0xFF]);
			}
			for u in text.encode_utf16() {
				out.extend_from_slice(&if enc == 0 { u.to_le_bytes() } else { u.to_be_bytes() });
			}
		}
		_ => {
			if enc == 3 {
				out.extend_from_slice(&[0xFF, 0xFE, 0, 0]);
			}
			for c in text.chars() {
				out.extend_from_slice(&if enc == 2 { (c as u32).to_be_bytes() } else { (c as u32).to_le_bytes() });
			}
		}
	}
	out
}

/// Shows the neighbourhood of the first difference between two dumps.
pub fn first_diff(got: &str, want: &str) -> String {
	let i = got.bytes().zip(want.bytes()).position(|(a, b)| a != b).unwrap_or(got.len().min(want.len()));
	let lo = i.saturating_sub(30);
	let g: String = got.chars().skip(lo).take(90).collect();
	let w: String = want.chars().skip(lo).take(90).collect();
	format!("…{g}… (want …{w}…) at dump offset {i}")
}


/// CLI stage: the same fidelity through the shipped binary when several files in different formats are
/// given to one invocation (formats resolved by extension, as a user would write it). Every ordered pair
/// and a set of triples of source formats x streaming targets; the output stream is read by the
/// independent reader and must be exactly the list of values, in order.
fn cli_stage(tally: &mut Tally, docs: &[Doc]) {
	use crate::proc::{self, Exit, Spawn, WorkDir};
	proc::assert_bins();
	let w = WorkDir::new("c01-cli");
	// a few small map-rooted documents of different families (every source format can spell them)
	let mut picks: Vec<&Doc> = vec![];
	for fam in ["tree", "ints", "strings", "floats", "depth", "string-keys"] {
		let mut n = 0;
		for d in docs.iter().filter(|d| d.family == fam && matches!(d.v, V::Map(_)) && d.v.dump().len() < 4000) {
			if F::ALL.iter().all(|&f| representable(&d.v, f) && spell_doc(f, &d.v, Style(0)).is_some()) {
				picks.push(d);
				n += 1;
				if n == 2 {
					break;
				}
			}
		}
	}
	if picks.len() < 4 {
		return;
	}
	let ext = |f: F| f.name();
	// files: d<i>.<style>.<ext>
	let mut names: Vec<Vec<Vec<String>>> = vec![]; // [doc][format] -> names per style
	for (i, d) in picks.iter().enumerate() {
		let mut per_f = vec![];
		for f in F::ALL {
			let mut v = vec![];
			for st in [0, style_count(f) - 1] {
				if let Some(bytes) = spell_doc(f, &d.v, Style(st)) {
					let name = format!("d{i}.s{st}.{}", ext(f));
					w.write(&name, &bytes);
					v.push(name);
				}
			}
			v.dedup();
			per_f.push(v);
		}
		names.push(per_f);
	}
	let fi = |f: F| F::ALL.iter().position(|&x| x == f).unwrap();
	struct Job {
		argv: Vec<String>,
		docs: Vec<usize>,
		to: F,
	}
	let mut jobs = vec![];
	let n = picks.len();
	for to in [F::Json, F::Msgpack, F::Yaml] {
		for (k, a) in F::ALL.iter().enumerate() {
			for (l, b) in F::ALL.iter().enumerate() {
				for i in 0..n {
					let j = (i + 1 + k + l) % n;
					let na = &names[i][fi(*a)];
					let nb = &names[j][fi(*b)];
					jobs.push(Job { argv: vec![format!("-t{}", to.letter()), na[i % na.len()].clone(), nb[j % nb.len()].clone()], docs: vec![i, j], to });
				}
				for c in F::ALL {
					let (i, j, m) = (k % n, (k + l + 1) % n, (l + 2) % n);
					jobs.push(Job { argv: vec![format!("-t{}", to.letter()), names[i][fi(*a)][0].clone(), names[j][fi(*b)][0].clone(), names[m][fi(c)][0].clone()], docs: vec![i, j, m], to });
				}
			}
		}
	}
	let dir = w.path().to_path_buf();
	let results = par_fold(&jobs, Tally::default, |t, _, job| {
		let args: Vec<&str> = job.argv.iter().map(|s| s.as_str()).collect();
		let o = proc::run(&Spawn::new(&dir, &args));
		t.evaluations += 1;
		t.count("cli-multi-file-invocations");
		t.nontrivial(fnv(&[job.argv.join(" ").as_bytes()]));
		let want: Vec<V> = job.docs.iter().map(|&i| picks[i].v.clone()).collect();
		let files: Vec<Value> = job.argv[1..].iter().map(|nm| json!({"name": nm, "hex": crate::util::hex(&std::fs::read(dir.join(nm)).unwrap_or_default())})).collect();
		let case = json!({"kind": "cli-files", "argv": job.argv, "files": files, "to": job.to.name(), "expected": want.iter().map(|v| v.dump()).collect::<Vec<_>>()});
		if let Some((class, msg)) = judge_cli_files(&o, job.to, &want) {
			// the class names the source format of the file the differing document came from, like the
			// library stages do (so that one defect is one class whichever stage sees it)
			let src = msg.split("at doc").nth(1).and_then(|r| r.chars().take_while(|c| c.is_ascii_digit()).collect::<String>().parse::<usize>().ok()).and_then(|k| job.argv.get(1 + k)).and_then(|nm| nm.rsplit('.').next()).unwrap_or("cli").to_string();
			t.bad(format!("{class}:{src}->{}", job.to.name()), case, format!("xt {:?}: {msg}", job.argv));
		}
		let _ = Exit::Code(0);
	});
	for r in results {
		tally.merge(r);
	}
}

fn judge_cli_files(o: &crate::proc::ProcOut, to: F, want: &[V]) -> Option<(String, String)> {
	if o.exit != crate::proc::Exit::Code(0) {
		return Some(("translation-failed".into(), o.brief()));
	}
	match read_output_values(to, &o.stdout) {
		Err(e) => Some(("unreadable-output".into(), format!("output {} unreadable: {e}", show(&o.stdout)))),
		Ok(d) => diff_classes(&d, want).into_iter().next().map(|(c, m)| (c, format!("output {}: {m}", show(&o.stdout)))),
	}
}

pub fn run(ctx: &Ctx) -> CheckOutput {
	let thorough = ctx.thorough();
	let mut docs = documents(thorough);
	if let Ok(f) = std::env::var("XTMC_C01_FAMILY") {
		docs.retain(|d| d.family == f);
	}
	let accs = par_fold(
		&docs,
		|| Acc { t: Tally::default(), toml: TomlBatch::default() },
		|acc, idx, doc| {
			let heavy = matches!(doc.family, "all-scalars" | "all-scalars-keys" | "floats" | "sized");
			for src in F::ALL {
				for st in 0..style_count(src) {
					// the comment-and-indentation YAML styles only for the small documents
					if src == F::Yaml && st >= 6 && !matches!(doc.family, "tree" | "strings" | "string-keys" | "depth") {
						continue;
					}
					let Some(input) = spell_doc(src, &doc.v, Style(st)) else {
						acc.t.count(&format!("unspellable:{}", src.name()));
						continue;
					};
					acc.t.count(&format!("spelled:{}:{}", src.name(), doc.family));
					let what = format!("{}:{}:style{}", doc.family, src.name(), st);
					let detected = detect_slice(&input).ok().flatten();
					for to in F::ALL {
						let Some(expected) = expected_for(&doc.v, to) else {
							acc.t.count(&format!("skipped-unrepresentable:{}", to.name()));
							continue;
						};
						acc.t.count(&format!("pair:{}->{}", src.name(), to.name()));
						acc.t.nontrivial(fnv(&[&input, to.name().as_bytes()]));
						let modes: &[Mode] = if heavy && !thorough { &[Mode::Slice, Mode::ReaderAll] } else { &[Mode::Slice, Mode::ReaderAll, Mode::Reader1] };
						for &mode in modes {
							judge(acc, &input, Some(src), to, mode, &expected, &what);
						}
						// detected source: judged only when detection picks the intended format
						if detected == Some(src) {
							acc.t.count("detected-as-intended");
							for mode in [Mode::Slice, Mode::Reader3] {
								judge(acc, &input, None, to, mode, &expected, &what);
							}
						} else {
							acc.t.count("detected-otherwise(not judged here; see C09/C10)");
						}
					}
					// UTF-16/32 spellings of the same YAML text (C07 goes deeper; here they are just
					// further spellings of the same value)
					if src == F::Yaml && st == 3 && matches!(doc.family, "all-scalars" | "strings" | "tree") {
						if let Ok(text) = std::str::from_utf8(&input) {
							// libyaml accepts a raw U+FEFF inside a quoted scalar: spell it raw here
							let text = &text.replace("\\ufeff", "\u{feff}");
							for enc in 0..4 {
								let bytes = encode_text(text, enc);
								for to in [F::Json, F::Msgpack] {
									if let Some(expected) = expected_for(&doc.v, to) {
										acc.t.count("yaml-utf16/32-spellings");
										for mode in [Mode::Slice, Mode::Reader3] {
											judge(acc, &bytes, Some(src), to, mode, &expected, &format!("{}:yaml-enc{enc}:style{st}", doc.family));
										}
									}
								}
							}
						}
					}
					if idx % 997 == 0 && st == 0 {
						acc.t.sample(6, || json!({"family": doc.family, "source": src.name(), "input": show(&input)}));
					}
				}
			}
		},
	);
	let mut tally = Tally::default();
	let mut toml = TomlBatch::default();
	for a in accs {
		tally.merge(a.t);
		toml.merge(a.toml);
	}
	if std::env::var("XTMC_C01_FAMILY").is_err() {
		cli_stage(&mut tally, &docs);
	}
	eprintln!("[c01] translations done at {:.1}s, {} TOML outputs to read", ctx.start.elapsed().as_secs_f64(), toml.items.len());
	let (n, bad) = toml.run("c01");
	eprintln!("[c01] TOML oracle done at {:.1}s", ctx.start.elapsed().as_secs_f64());
	tally.add("toml-outputs-read-by-tomllib", n as u64);
	for (i, reason) in bad {
		let (_, out, desc, case) = &toml.items[i];
		let want = crate::model::parse_dump(toml.items[i].0.as_ref().unwrap());
		let got = reason.strip_prefix("value differs: got ").and_then(crate::model::parse_dump);
		match (got, want) {
			(Some(g), Some(w)) if explained_by_toml_nested_order(&g, &w) => {
				tally.bad("toml-nested-array-of-tables-before-tables", case.clone(), format!("{desc}: TOML output {}: inside a nested table an array of tables was written before a table that preceded it in the input", show(out)));
			}
			(Some(g), Some(w)) => {
				for (class, msg) in diff_classes(&[g], &[w]) {
					tally.bad(format!("{class}:{}->toml", desc.split(':').nth(1).unwrap_or("?")), case.clone(), format!("{desc}: TOML output {}: {msg}", show(out)));
				}
			}
			_ => tally.bad("toml-output-invalid", case.clone(), format!("{desc}: TOML output {}: {reason}", show(out))),
		}
	}
	let req = |k: &str| (k.to_string(), *tally.counters.get(k).unwrap_or(&0));
	let mut required = vec![req("detected-as-intended"), req("toml-outputs-read-by-tomllib"), req("cli-multi-file-invocations")];
	for s in F::ALL {
		for t in F::ALL {
			required.push(req(&format!("pair:{}->{}", s.name(), t.name())));
		}
	}
	CheckOutput {
		level: "exploration",
		tally,
		rule: format!("documents: every ordered tree with <= {} nodes over 6 structural scalars and 9 keys; integer family (all +-2^j, +-2^j+-1 in [-2^63, 2^64-1]); float family ({} exponents x 20 mantissa patterns x sign, edge values, {} fixed scrambled doubles), NaN/inf where the pair has them; string family (type/structure look-alikes, blanks, quotes, every C0/C1 control) as values and keys; EVERY Unicode scalar value (64 per string) as values and keys; depth chains to 64. Each document is spelled in every style of every source format, translated to all 4 targets from slice / reader(all) / reader(1 byte) with the source named and, when detection picks that source, detected; the output is read by the harness's own reader of the target (JSON, MessagePack: hand-written; YAML: libyaml events + own core-schema resolver; TOML: Python tomllib) and must equal the expected value (TOML: after the stable non-table-first partition). CLI stage: 12 small map-rooted documents written as files in every source format, every ordered pair and 64 triples of source formats given to ONE invocation of the binary (formats by extension) for the 3 streaming targets; the output stream must read back as exactly those values in order. Non-trivial/distinct = (input bytes, target).",
			if thorough { 5 } else { 4 }, if thorough { 2047 } else { 128 }, if thorough { 200_000 } else { 6_000 }),
		exhaustive: true,
		bounds: json!({"tree_nodes": if thorough { 5 } else { 4 }, "depth": 64}),
		assumptions: vec![
			"the independent readers implement RFC 8259, the MessagePack spec, the YAML 1.2 core schema (on libyaml parser events) and TOML 1.0 (tomllib)".into(),
			"floats are compared on their 64 bits (all NaNs identified), strings code point by code point, map entries in order".into(),
		],
		required,
		extra: Default::default(),
	}
}

pub fn replay(case: &Value) -> Option<String> {
	if case["kind"] == "cli-files" {
		crate::proc::assert_bins();
		let w = crate::proc::WorkDir::new("c01-replay");
		for f in case["files"].as_array().unwrap() {
			w.write(f["name"].as_str().unwrap(), &crate::util::unhex(f["hex"].as_str().unwrap()));
		}
		let argv: Vec<String> = case["argv"].as_array().unwrap().iter().map(|a| a.as_str().unwrap().to_string()).collect();
		let args: Vec<&str> = argv.iter().map(|s| s.as_str()).collect();
		let o = crate::proc::run(&crate::proc::Spawn::new(w.path(), &args));
		let to = F::parse(case["to"].as_str().unwrap()).unwrap();
		let want: Vec<V> = case["expected"].as_array().unwrap().iter().map(|d| crate::model::parse_dump(d.as_str().unwrap()).unwrap()).collect();
		return judge_cli_files(&o, to, &want).map(|(c, m)| format!("{c}: {m}"));
	}
	replay_model(case)
}
