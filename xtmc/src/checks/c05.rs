//! C05 — streaming translation: bounded lag and bounded memory.
//! (S) packetisations of N-document streams with a lag monitor evaluated at every read(), plus
//! long generated streams whose live-heap trace must not grow (counting allocator) and recurs.

use std::cell::{Cell, RefCell};
use std::collections::HashSet;
use std::io::{Read, Write};
use std::rc::Rc;

use serde_json::{json, Value};

use crate::env::{explore, ReadPolicy, SchedReader};
use crate::model::V;
use crate::report::{CheckOutput, Ctx, Tally};
use crate::run::{fname, F};
use crate::spell::{spell_doc, Style};
use crate::util::{fnv, par_fold};

fn doc_of(i: usize, size_class: usize) -> V {
	let pad = match size_class {
		0 => 0,
		1 => 80,
		2 => 5 * 1024,
		3 => 20 * 1024,
		n => n, // an explicit padding length (size ladder)
	};
	V::map(vec![("i", V::Int(i as i128)), ("p", V::Str("z".repeat(pad)))])
}

fn sep_for(f: F) -> &'static [u8] {
	match f {
		F::Json => b"\n",
		F::Yaml => b"---\n",
		_ => b"",
	}
}

/// Spells one document of a stream including its separator (YAML: leading '---').
fn stream_piece(f: F, v: &V) -> Vec<u8> {
	stream_piece_d(f, v, false)
}

/// `directives`: YAML documents carry %YAML / %TAG directives and an explicit end marker.
fn stream_piece_d(f: F, v: &V, directives: bool) -> Vec<u8> {
	let body = spell_doc(f, v, Style(0)).unwrap();
	if f == F::Yaml && directives {
		let mut b = b"%YAML 1.2\n%TAG !e! tag:example.com,2000:app/\n---\n".to_vec();
		b.extend(body);
		b.extend_from_slice(b"...\n");
		return b;
	}
	match f {
		F::Yaml => {
			let mut b = sep_for(f).to_vec();
			b.extend(body);
			b
		}
		F::Json => {
			let mut b = body;
			b.extend_from_slice(sep_for(f));
			b
		}
		_ => body,
	}
}

struct CountingWriter(Rc<Cell<usize>>);
impl Write for CountingWriter {
	fn write(&mut self, b: &[u8]) -> std::io::Result<usize> {
		self.0.set(self.0.get() + b.len());
		Ok(b.len())
	}
	fn flush(&mut self) -> std::io::Result<()> {
		Ok(())
	}
}

/// Reader that delivers the stream packet by packet (cut offsets), never more than the caller asks.
struct PacketReader<'a> {
	data: &'a [u8],
	pos: usize,
	cuts: &'a [usize],
	on_read: Box<dyn FnMut(usize) + 'a>,
}
impl Read for PacketReader<'_> {
	fn read(&mut self, buf: &mut [u8]) -> std::io::Result<usize> {
		(self.on_read)(self.pos);
		if buf.is_empty() {
			return Ok(0);
		}
		let next_cut = self.cuts.iter().copied().find(|&c| c > self.pos).unwrap_or(self.data.len());
		let n = buf.len().min(next_cut - self.pos);
		buf[..n].copy_from_slice(&self.data[self.pos..self.pos + n]);
		self.pos += n;
		Ok(n)
	}
}

struct LagCase {
	src: F,
	to: F,
	detect: bool,
	sizes: Vec<usize>,
	label: String,
}

/// Returns the maximum lag observed (documents fully delivered minus documents fully written) and a
/// violation description if the bound is broken.
fn lag_run(case: &LagCase, cuts_kind: usize, explore_d: Option<usize>, t: &mut Tally) -> Option<String> {
	let docs: Vec<V> = case.sizes.iter().enumerate().map(|(i, &s)| doc_of(i, s)).collect();
	let mut data = vec![];
	let mut ends = vec![];
	for d in &docs {
		data.extend(stream_piece(case.src, d));
		ends.push(data.len());
	}
	if case.src == F::Yaml {
		// a YAML document's text ends where the next '---' begins; the piece boundary is that point
	}
	// cumulative expected output lengths, from each document translated alone
	let mut outs = vec![0usize];
	for d in &docs {
		let b = spell_doc(F::Msgpack, d, Style(0)).unwrap();
		let o = crate::run::run_slice(&b, Some(F::Msgpack), case.to);
		if !o.ok {
			return None;
		}
		outs.push(outs.last().unwrap() + o.out.len());
	}
	let n = docs.len();
	let cuts: Vec<usize> = match cuts_kind {
		0 => ends.clone(),                                                            // one document per read
		1 => ends.iter().copied().step_by(2).collect(),                               // two per read
		2 => ends.iter().copied().step_by(3).collect(),                               // three per read
		3 => ends.iter().flat_map(|&e| [e.saturating_sub(3), e]).collect(),           // all but 3 bytes, then the rest
		4 => (1..=data.len()).step_by(7).collect(),                                   // 7-byte packets
		5 => (1..=data.len()).collect(),                                              // single bytes
		6 => { let mut c = vec![]; let mut p = 0; for &e in &ends { let len = e - p; c.push(p + len / 2); c.push(e); p = e; } c } // half documents
		_ => (1..=data.len()).step_by(100).collect(),
	};
	let written = Rc::new(Cell::new(0usize));
	let viol: Rc<RefCell<Option<String>>> = Rc::new(RefCell::new(None));
	let max_lag = Rc::new(Cell::new(0usize));
	let from = if case.detect { None } else { Some(case.src) };
	let monitor = {
		let written = written.clone();
		let viol = viol.clone();
		let max_lag = max_lag.clone();
		let ends = ends.clone();
		let outs = outs.clone();
		move |p: usize| {
			let j = ends.iter().filter(|&&e| e <= p).count();
			let done = outs.iter().rposition(|&o| o <= written.get()).unwrap_or(0);
			max_lag.set(max_lag.get().max(j.saturating_sub(done)));
			if j >= 2 && written.get() < outs[j - 2] && viol.borrow().is_none() {
				*viol.borrow_mut() = Some(format!("at a read() with {p} bytes ({j} complete documents) delivered, only {} output bytes were written; documents 1..{} need {}", written.get(), j - 2, outs[j - 2]));
			}
		}
	};
	let mut result = None;
	match explore_d {
		None => {
			let r = PacketReader { data: &data, pos: 0, cuts: &cuts, on_read: Box::new(monitor) };
			let (ok, err, panic) = crate::run::run_reader_to(r, from, case.to, CountingWriter(written.clone()));
			t.evaluations += 1;
			t.traces += 1;
			if !ok || panic.is_some() {
				result = Some(format!("stream refused: {err} {panic:?}"));
			}
		}
		Some(d) => {
			let marks = Rc::new(ends.clone());
			let pol = ReadPolicy { chunk: 0, faults: false, sizes: true, marks };
			let monitor = Rc::new(RefCell::new(monitor));
			let st = explore(d, 2000, |env| {
				written.set(0);
				let mut r = SchedReader::new(&data, env, pol.clone());
				let m = monitor.clone();
				r.on_read = Some(Box::new(move |p| (m.borrow_mut())(p)));
				let (ok, err, panic) = crate::run::run_reader_to(r, from, case.to, CountingWriter(written.clone()));
				t.evaluations += 1;
				if (!ok || panic.is_some()) && viol.borrow().is_none() {
					*viol.borrow_mut() = Some(format!("stream refused: {err} {panic:?}"));
				}
			});
			t.states += st.runs;
			t.transitions += st.points;
			t.traces += st.runs;
			if st.capped {
				t.capped += 1;
			}
		}
	}
	t.max(&format!("lag-observed-in-documents:{}", case.src.name()), max_lag.get() as u64);
	let _ = n;
	result.or_else(|| viol.borrow().clone())
}

// ------------------------------------------------------------------------------------ memory

/// Generates the stream on demand: document i has size class (i % period) of `classes`.
struct GenReader<'a> {
	src: F,
	n: usize,
	classes: &'a [usize],
	next_doc: usize,
	cur: Vec<u8>,
	cur_pos: usize,
	packet: usize,
	on_read: Box<dyn FnMut(usize) + 'a>,
	prebuilt: Vec<Vec<u8>>,
}
impl Read for GenReader<'_> {
	fn read(&mut self, buf: &mut [u8]) -> std::io::Result<usize> {
		(self.on_read)(self.next_doc);
		if self.cur_pos == self.cur.len() {
			if self.next_doc == self.n {
				return Ok(0);
			}
			// reuse the pre-spelled piece of this size class (only the index digits differ in length; keep it simple: identical docs per class)
			let piece = &self.prebuilt[self.next_doc % self.classes.len()];
			self.cur.clear();
			self.cur.extend_from_slice(piece);
			self.cur_pos = 0;
			self.next_doc += 1;
		}
		let mut n = buf.len().min(self.cur.len() - self.cur_pos);
		if self.packet > 0 {
			n = n.min(self.packet);
		}
		buf[..n].copy_from_slice(&self.cur[self.cur_pos..self.cur_pos + n]);
		self.cur_pos += n;
		Ok(n)
	}
}

struct MemCase {
	directives: bool,
	src: F,
	to: F,
	detect: bool,
	n: usize,
	classes: Vec<usize>,
	packet: usize,
}

fn mem_run(c: &MemCase) -> (Option<String>, usize, bool) {
	let prebuilt: Vec<Vec<u8>> = c.classes.iter().enumerate().map(|(i, &s)| stream_piece_d(c.src, &doc_of(i, s), c.directives)).collect();
	let largest = prebuilt.iter().map(Vec::len).max().unwrap();
	// samples: (doc index, live bytes, live blocks)
	let samples: Rc<RefCell<Vec<(usize, isize, isize)>>> = Rc::new(RefCell::new(Vec::with_capacity(1 << 16)));
	let base = crate::alloc::live();
	let s2 = samples.clone();
	let cap = samples.borrow().capacity();
	let reader = GenReader {
		src: c.src,
		n: c.n,
		classes: &c.classes,
		next_doc: 0,
		cur: Vec::with_capacity(largest),
		cur_pos: 0,
		packet: c.packet,
		prebuilt,
		on_read: Box::new(move |doc| {
			let (b, k) = crate::alloc::live();
			let mut v = s2.borrow_mut();
			if v.len() < cap {
				v.push((doc, b - base.0, k - base.1));
			} else {
				// keep the buffer bounded: overwrite round-robin beyond capacity (positions keep their doc index)
				let i = doc % cap;
				v[i] = (doc, b - base.0, k - base.1);
			}
		}),
	};
	let written = Rc::new(Cell::new(0usize));
	let from = if c.detect { None } else { Some(c.src) };
	let (ok, err, panic) = crate::run::run_reader_to(reader, from, c.to, CountingWriter(written));
	if !ok || panic.is_some() {
		return (Some(format!("stream refused: {err} {panic:?}")), 0, false);
	}
	let samples = samples.borrow();
	// the sample buffer itself was allocated before `base` was taken, so it does not count
	let q = |lo: usize, hi: usize| samples.iter().filter(|s| s.0 >= lo && s.0 < hi).map(|s| s.1).max().unwrap_or(0);
	let n = c.n;
	let p2 = q(n / 4, n / 2);
	let p3 = q(n / 2, 3 * n / 4);
	let overall = samples.iter().map(|s| s.1).max().unwrap_or(0);
	let ceiling = (8usize << 20) + 24 * largest;
	let mut verdict = None;
	if p3 > p2 + largest as isize {
		verdict = Some(format!("live heap grows along the stream: peak {p3} bytes over documents [N/2,3N/4) vs {p2} over [N/4,N/2) (largest document {largest} bytes)"));
	} else if overall as usize > ceiling {
		verdict = Some(format!("live heap peaks at {overall} bytes, above the ceiling {ceiling} (= 8 MiB + 24 x largest document of {largest} bytes) for a stream of {} bytes", n * largest));
	}
	// recurrence: the abstract states (live bytes, live blocks) of the third quarter already occurred in the second
	let second: HashSet<(isize, isize)> = samples.iter().filter(|s| s.0 >= n / 4 && s.0 < n / 2).map(|s| (s.1, s.2)).collect();
	let closed = samples.iter().filter(|s| s.0 >= n / 2 && s.0 < 3 * n / 4).all(|s| second.contains(&(s.1, s.2)));
	(verdict, second.len(), closed)
}

pub fn run(ctx: &Ctx) -> CheckOutput {
	let thorough = ctx.thorough();
	// ---- lag
	let mut lag_jobs: Vec<(LagCase, usize, Option<usize>)> = vec![];
	let mut shapes: Vec<(Vec<usize>, String)> = vec![
		(vec![0; 6], "6x8B".into()),
		(vec![1; 8], "8x100B".into()),
		(vec![2; 5], "5x5KiB".into()),
		(vec![3; 4], "4x20KiB".into()),
		(vec![0, 2, 1, 3, 0, 1, 2, 0, 3, 1], "10-mixed".into()),
		(vec![0; 12], "12x8B".into()),
		(vec![1, 0, 0, 1, 0, 0, 1], "7-small".into()),
	];
	// one large document (every ladder size) in first or second position among small ones: whatever
	// look-ahead detection or a parser does for the large one must not hold back the small ones
	for &size in &crate::gen::size_ladder(thorough) {
		let mut first = vec![size];
		first.extend([0usize; 14]);
		shapes.push((first, format!("{size}B-then-14x8B")));
		let mut second = vec![1, size];
		second.extend([0usize; 12]);
		shapes.push((second, format!("100B-{size}B-then-12x8B")));
	}
	for src in F::STREAMING {
		for to in F::STREAMING {
			for detect in [false, true] {
				for (sizes, label) in &shapes {
					for cuts_kind in 0..8 {
						if (!thorough || sizes.len() == 15) && cuts_kind == 5 && sizes.iter().any(|&s| s >= 2) {
							continue; // single-byte packets over large documents: thorough only
						}
						lag_jobs.push((LagCase { src, to, detect, sizes: sizes.clone(), label: label.to_string() }, cuts_kind, None));
					}
					if sizes.len() <= 8 && sizes.iter().all(|&s| s <= 1) {
						lag_jobs.push((LagCase { src, to, detect, sizes: sizes.clone(), label: label.to_string() }, 0, Some(if thorough { 2 } else { 1 })));
					}
				}
			}
		}
	}
	let tl = par_fold(&lag_jobs, Tally::default, |t, idx, (case, kind, d)| {
		t.count(&format!("lag:{}{}", case.src.name(), if case.detect { ":detected" } else { "" }));
		t.nontrivial(fnv(&[case.label.as_bytes(), case.src.name().as_bytes(), case.to.name().as_bytes(), &[*kind as u8, u8::from(case.detect), u8::from(d.is_some())]]));
		if let Some(msg) = lag_run(case, *kind, *d, t) {
			t.bad(format!("lag-bound-broken:{}", case.src.name()), json!({"kind": "lag", "src": case.src.name(), "to": case.to.name(), "detect": case.detect, "sizes": case.sizes, "cuts": kind, "explore": d}),
				format!("{} stream {} -> {} (from={}), packetisation {}{}: {msg}", case.src.name(), case.label, case.to.name(), fname(if case.detect { None } else { Some(case.src) }), kind, if d.is_some() { " + schedule deviations" } else { "" }));
		}
		if idx % 499 == 0 {
			t.sample(4, || json!({"lag_case": case.label, "src": case.src.name(), "to": case.to.name(), "detect": case.detect, "packetisation": kind}));
		}
	});
	// ---- memory
	let n = if thorough { 1_000_000 } else { 40_000 };
	let mut mem_jobs: Vec<MemCase> = vec![];
	for src in F::STREAMING {
		for detect in [false, true] {
			for (classes, nn) in [(vec![0usize], n), (vec![1, 0, 1], n), (vec![2, 0], n / 10), (vec![3, 1, 2], n / 40)] {
				for packet in [0usize, 7, 100, 5000] {
					for to in [F::Json, F::Msgpack, F::Yaml] {
						if !thorough && to != F::Json && packet != 0 {
							continue;
						}
						mem_jobs.push(MemCase { directives: false, src, to, detect, n: nn, classes: classes.clone(), packet });
						if src == F::Yaml && to == F::Json && packet == 0 {
							mem_jobs.push(MemCase { directives: true, src, to, detect, n: nn, classes: classes.clone(), packet });
						}
					}
				}
			}
		}
	}
	if thorough {
		for src in F::STREAMING {
			mem_jobs.push(MemCase { directives: false, src, to: F::Json, detect: true, n: 2000, classes: vec![4], packet: 0 });
		}
	}
	let tm = par_fold(&mem_jobs, Tally::default, |t, idx, c| {
		let (verdict, states, closed) = mem_run(c);
		t.evaluations += 1;
		t.traces += 1;
		t.states += states as u64;
		t.transitions += c.n as u64;
		t.count(&format!("memory:{}{}", c.src.name(), if c.detect { ":detected" } else { "" }));
		t.count(if closed { "memory:abstract-state-set-closed(lasso)" } else { "memory:abstract-state-set-not-closed" });
		t.nontrivial(fnv(&[c.src.name().as_bytes(), c.to.name().as_bytes(), &c.n.to_le_bytes(), &c.packet.to_le_bytes(), &[u8::from(c.detect), c.classes.len() as u8, c.classes[0] as u8]]));
		if let Some(msg) = verdict {
			t.bad(format!("memory-grows:{}{}", c.src.name(), if c.detect { ":detected" } else { "" }), json!({"kind": "memory", "directives": c.directives, "src": c.src.name(), "to": c.to.name(), "detect": c.detect, "n": c.n, "classes": c.classes, "packet": c.packet}),
				format!("{} stream of {} documents (size classes {:?}, packets of {} bytes, from={}) -> {}: {msg}", c.src.name(), c.n, c.classes, c.packet, if c.detect { "detect" } else { c.src.name() }, c.to.name()));
		}
		if idx % 37 == 0 {
			t.sample(3, || json!({"memory_case": {"src": c.src.name(), "n": c.n, "classes": c.classes, "packet": c.packet, "detect": c.detect}, "distinct_heap_states_second_quarter": states, "closed": closed}));
		}
	});
	let mut tally = Tally::merge_all(tl);
	tally.merge(Tally::merge_all(tm));
	let req = |k: &str| (k.to_string(), *tally.counters.get(k).unwrap_or(&0));
	let required = vec![
		req("lag:json"), req("lag:json:detected"), req("lag:yaml"), req("lag:yaml:detected"), req("lag:msgpack"), req("lag:msgpack:detected"),
		req("memory:json"), req("memory:yaml:detected"), req("memory:msgpack:detected"),
	];
	CheckOutput {
		level: "model_checking",
		tally,
		rule: format!("lag: streams of 4-15 documents (8 B, 100 B, 5 KiB, 20 KiB, mixed; one document of every ladder size 2^k-1, 2^k, 2^k+1 around 4 KiB..64 KiB in first or second position among 8-byte documents) in JSON / MessagePack / YAML, source named and detected, every streaming target, 8 packetisations (1, 2, 3 documents per read; all-but-3-bytes; half documents; 7-byte, 100-byte and single-byte packets) and, for the small streams, every read schedule with <= {} deviation(s); a monitor runs at EVERY read() call: with j documents fully delivered, the complete translations of documents 1..j-2 must already have been handed to the writer. memory: streams generated on demand (period-P cycles of documents up to 20 KiB, YAML also with %YAML/%TAG directives and '...' on every document; N = {} documents), packets of all/7/100/5000 bytes, named and detected; a counting allocator samples the live heap at every read(): the peak over documents [N/2,3N/4) must not exceed the peak over [N/4,N/2) by more than one largest document, and the overall peak must stay under 8 MiB + 24 x largest document (a stream-sized footprint breaks this); the set of (live bytes, live blocks) states of the third quarter is compared with the second quarter's (closed = lasso, reported).", if thorough { 2 } else { 1 }, n),
		exhaustive: true,
		bounds: json!({"deviations": if thorough { 2 } else { 1 }, "stream_documents": n}),
		assumptions: vec![
			"memory is the live heap seen by a counting GlobalAlloc on the translating thread; allocator fragmentation and kernel RSS are not modelled".into(),
			"boundedness for longer streams follows from determinism when the abstract heap-state set is closed (reported per case)".into(),
		],
		required,
		extra: Default::default(),
	}
}

pub fn replay(case: &Value) -> Option<String> {
	let f = |k: &str| F::parse(case[k].as_str().unwrap()).unwrap();
	match case["kind"].as_str().unwrap_or("") {
		"lag" => {
			let c = LagCase { src: f("src"), to: f("to"), detect: case["detect"].as_bool().unwrap(), sizes: case["sizes"].as_array().unwrap().iter().map(|x| x.as_u64().unwrap() as usize).collect(), label: "replay".into() };
			let mut t = Tally::default();
			lag_run(&c, case["cuts"].as_u64().unwrap() as usize, case["explore"].as_u64().map(|d| d as usize), &mut t)
		}
		_ => {
			let c = MemCase { directives: case["directives"].as_bool().unwrap_or(false), src: f("src"), to: f("to"), detect: case["detect"].as_bool().unwrap(), n: case["n"].as_u64().unwrap() as usize, classes: case["classes"].as_array().unwrap().iter().map(|x| x.as_u64().unwrap() as usize).collect(), packet: case["packet"].as_u64().unwrap() as usize };
			mem_run(&c).0
		}
	}
}
