use crate::report::{CheckOutput, Ctx};

pub mod c01;
pub mod c02;
pub mod c03;
pub mod c04;
pub mod c05;
pub mod c06;
pub mod c07;
pub mod c08;
pub mod c09;
pub mod c10;
pub mod c11;
pub mod c12;
pub mod c13;
pub mod c14;
pub mod c15;
pub mod c16;
pub mod c17;
pub mod c18;
pub mod common;

pub fn run(ctx: &Ctx) -> Option<CheckOutput> {
	Some(match ctx.id.as_str() {
		"C01" => c01::run(ctx),
		"C02" => c02::run(ctx),
		"C03" => c03::run(ctx),
		"C04" => c04::run(ctx),
		"C05" => c05::run(ctx),
		"C06" => c06::run(ctx),
		"C07" => c07::run(ctx),
		"C08" => c08::run(ctx),
		"C09" => c09::run(ctx),
		"C10" => c10::run(ctx),
		"C11" => c11::run(ctx),
		"C12" => c12::run(ctx),
		"C13" => c13::run(ctx),
		"C14" => c14::run(ctx),
		"C15" => c15::run(ctx),
		"C16" => c16::run(ctx),
		"C17" => c17::run(ctx),
		"C18" => c18::run(ctx),
		_ => return None,
	})
}

/// Worker sub-process entry (crash isolation).
pub fn worker(check: &str, tier: &str, part: usize, nparts: usize, start: usize, progress: &str) {
	match check {
		"C04" => c04::worker(tier, part, nparts, start, progress),
		"C17" => c17::worker(tier, part, nparts, start, progress),
		_ => {
			eprintln!("no worker for {check}");
			std::process::exit(3);
		}
	}
}

/// Re-executes a recorded violation without the explorer. Exit 1 if it still violates.
pub fn replay_file(path: &str) -> i32 {
	let text = match std::fs::read_to_string(path) {
		Ok(t) => t,
		Err(e) => {
			eprintln!("cannot read {path}: {e}");
			return 2;
		}
	};
	let v: serde_json::Value = serde_json::from_str(&text).expect("replay file is not JSON");
	let prop = v["property"].as_str().unwrap_or("").to_string();
	let case = &v["case"];
	let run_once = || -> Option<String> {
		if case["kind"] == "crash" {
			return Some("the recorded event is a crash of the whole check process; re-run the check to reproduce it".into());
		}
		match prop.as_str() {
			"C01" => c01::replay(case),
			"C02" => c02::replay(case),
			"C03" => c03::replay(case),
			"C04" => c04::replay(case),
			"C05" => c05::replay(case),
			"C06" => c06::replay(case),
			"C07" => c07::replay(case),
			"C08" => c08::replay(case),
			"C09" => c09::replay(case),
			"C10" => c10::replay(case),
			"C11" => c11::replay(case),
			"C12" => c12::replay(case),
			"C13" => c13::replay(case),
			"C14" => c14::replay(case),
			"C15" => c15::replay(case),
			"C16" => c16::replay(case),
			"C17" => c17::replay(case),
			"C18" => c18::replay(case),
			_ => Some(format!("no replayer for {prop}")),
		}
	};
	let a = run_once();
	let b = run_once();
	if a != b {
		eprintln!("MACHINERY ERROR: replay is not deterministic:\n  1: {a:?}\n  2: {b:?}");
		return 2;
	}
	match a {
		Some(d) => {
			println!("VIOLATION property={prop} replay={path}");
			println!("  {d}");
			1
		}
		None => {
			println!("replay of {path}: property holds on this case");
			0
		}
	}
}
