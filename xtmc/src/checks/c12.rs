//! C12 — I/O faults and partial I/O are handled faithfully by the library.
//! Fault enumeration: reader fails at every byte offset, writer fails at every output byte,
//! every short-write pattern within the deviation bound, flush failure.

use std::rc::Rc;

use serde_json::{json, Value};

use super::common::*;
use crate::env::{explore, Env, FailAtReader, FailAtWriter, SchedReader, SchedWriter, WritePolicy, INJECTED_FLUSH, INJECTED_READ};
use crate::gen;
use crate::model::MpReader;
use crate::report::{CheckOutput, Ctx, Tally};
use crate::run::{fname, run_reader, run_reader_to, run_slice_to, ChunkReader, F};
use crate::util::{fnv, hex, par_fold, show, unhex};

pub fn corpus(thorough: bool) -> Vec<(F, Vec<u8>)> {
	let mut v: Vec<(F, Vec<u8>)> = vec![];
	let lim = if thorough { 20_000 } else { 1200 };
	for f in F::ALL {
		for s in gen::seeds(f) {
			if s.len() <= lim {
				v.push((f, s));
			}
		}
		for s in gen::linebreak_variants(f) {
			if s.len() <= 200 && f == F::Yaml {
				v.push((f, s));
			}
		}
	}
	// valid multi-document streams
	for s in [
		"{\"a\":1}\n[1,2,3]\n\"x\"\n{\"b\":{\"c\":[true,null]}}\n",
		"1 2 3 4 5 6 7 8",
		"{\"k\":\"vvvvvvvvvvvvvvvvvvvvvvvvvvvvvvvvvvvvvvvvvvvvvvvv\"}{\"k2\":[1,2,3,4,5,6,7,8,9,10]}",
	] {
		v.push((F::Json, s.as_bytes().to_vec()));
	}
	for s in [
		"---\na: 1\n---\n- x\n- y\n---\nplain\n...\n",
		"a: 1\n---\nb: 2\n---\nc: 3\n",
		"- 1\n- 2\n...\n---\n{k: v}\n",
	] {
		v.push((F::Yaml, s.as_bytes().to_vec()));
	}
	for s in ["81a16101 9201 02 a178 c3", "93010203 80 90 81a16b92c0c2"] {
		v.push((F::Msgpack, unhex(s)));
	}
	// long multi-document streams: documents that end around the 8 KiB / 16 KiB buffer edges
	use crate::model::V;
	use crate::spell::{spell_stream, Style};
	for src in F::STREAMING {
		for first_len in [8150usize, 8192, 16380] {
			let docs = vec![
				V::map(vec![("p", V::Str("z".repeat(first_len)))]),
				V::map(vec![("second", V::Int(2))]),
				V::Arr(vec![V::s("third"), V::Null]),
				V::s("fourth"),
			];
			if let Some(b) = spell_stream(src, &docs, Style(0), 0) {
				v.push((src, b));
			}
		}
	}
	v
}

/// The leading part of `out` that consists of complete documents under the target's framing.
/// The last segment of a failed run is never counted as complete (framing is written before
/// the next value is read).
pub fn complete_prefix_len(out: &[u8], to: F) -> usize {
	match to {
		F::Json => out.iter().rposition(|&b| b == b'\n').map_or(0, |i| i + 1),
		F::Yaml => {
			// start of the last "---\n" that begins a line
			let mut last = 0;
			let mut i = 0;
			while i < out.len() {
				if (i == 0 || out[i - 1] == b'\n') && out[i..].starts_with(b"---\n") {
					last = i;
				}
				i += 1;
			}
			last
		}
		F::Msgpack => {
			let mut r = MpReader::new(out);
			let mut good = 0;
			while r.pos < out.len() {
				if r.value().is_err() {
					break;
				}
				good = r.pos;
			}
			good
		}
		F::Toml => 0,
	}
}

fn at_boundary(full: &[u8], len: usize, to: F) -> bool {
	if len == 0 || len == full.len() {
		return true;
	}
	match to {
		F::Json => full[len - 1] == b'\n',
		F::Yaml => full[len..].starts_with(b"---\n") && full[len - 1] == b'\n',
		F::Msgpack => {
			let mut r = MpReader::new(full);
			while r.pos < len {
				if r.value().is_err() {
					return false;
				}
			}
			r.pos == len
		}
		F::Toml => false,
	}
}

fn fault_case(kind: &str, input: &[u8], from: Option<F>, to: F, k: usize, chunk: usize) -> Value {
	json!({"kind": kind, "input_hex": hex(input), "input_text": show(input), "from": fname(from), "to": to.name(), "k": k, "chunk": chunk})
}

pub const KINDS: [std::io::ErrorKind; 4] = [std::io::ErrorKind::Other, std::io::ErrorKind::UnexpectedEof, std::io::ErrorKind::InvalidData, std::io::ErrorKind::Interrupted];

fn reader_fault_one(input: &[u8], from: Option<F>, to: F, k: usize, chunk: usize, clean: &crate::run::Outcome) -> Option<(String, String)> {
	reader_fault_kind(input, from, to, k, chunk, clean, std::io::ErrorKind::Other)
}

fn reader_fault_kind(input: &[u8], from: Option<F>, to: F, k: usize, chunk: usize, clean: &crate::run::Outcome, kind: std::io::ErrorKind) -> Option<(String, String)> {
	let r = run_reader(FailAtReader::new(input, k, chunk).with_kind(kind), from, to);
	if let Some(p) = &r.panic {
		return Some(("reader-fault-panic".into(), format!("panic: {p}")));
	}
	if r.ok {
		return Some(("reader-fault-success".into(), format!("returned Ok with output {}", show(&r.out))));
	}
	if clean.ok {
		if !r.err.contains(INJECTED_READ) {
			return Some(("reader-fault-text-lost".into(), format!("error text '{}' does not contain the reader's '{}'", r.err, INJECTED_READ)));
		}
		if to == F::Toml {
			if !(r.out.is_empty() || r.out == clean.out) {
				return Some(("reader-fault-wrong-output".into(), format!("TOML output {} is neither empty nor the fault-free document", show(&r.out))));
			}
		} else {
			let n = complete_prefix_len(&r.out, to);
			if !clean.out.starts_with(&r.out[..n]) || !at_boundary(&clean.out, n, to) {
				return Some((
					"reader-fault-wrong-output".into(),
					format!("complete documents {} are not a document prefix of the fault-free output {}", show(&r.out[..n]), show(&clean.out)),
				));
			}
		}
	}
	None
}

fn writer_fault_one(input: &[u8], from: Option<F>, to: F, k: usize, reader: bool, clean_out: &[u8]) -> Option<(String, String)> {
	let (w, acc) = FailAtWriter::new(k);
	let (ok, err, panic) = if reader {
		run_reader_to(ChunkReader::new(input, 0), from, to, w)
	} else {
		run_slice_to(input, from, to, w)
	};
	let acc = acc.borrow();
	if let Some(p) = panic {
		return Some(("writer-fault-panic".into(), format!("panic: {p}")));
	}
	if ok {
		return Some(("writer-fault-success".into(), format!("returned Ok although the writer failed after {k} of {} bytes", clean_out.len())));
	}
	if !clean_out.starts_with(&acc) {
		return Some(("writer-fault-wrong-output".into(), format!("accepted bytes {} are not a prefix of {}", show(&acc), show(clean_out))));
	}
	let _ = err;
	None
}

/// Single documents of about 2.2 MB whose first value extends past detection's 2 MiB look-ahead.
fn large_documents() -> Vec<(F, Vec<u8>, &'static str)> {
	let big = 2_200_000usize;
	let z = "z".repeat(big);
	let mut mp = vec![0x81, 0xa1, b'p', 0xdb];
	mp.extend((big as u32).to_be_bytes());
	mp.extend(z.as_bytes());
	let mut mpbin = vec![0x92, 0x01, 0xc6];
	mpbin.extend((big as u32).to_be_bytes());
	mpbin.extend(z.as_bytes());
	vec![
		(F::Json, format!("{{\"p\":\"{z}\"}}\n").into_bytes(), "json"),
		(F::Msgpack, mp, "msgpack-str32"),
		(F::Msgpack, mpbin, "msgpack-bin32"),
		(F::Yaml, format!("p: {z}\n").into_bytes(), "yaml"),
		(F::Toml, format!("p = \"{z}\"\n").into_bytes(), "toml"),
	]
}

pub fn run(ctx: &Ctx) -> CheckOutput {
	let thorough = ctx.thorough();
	let corpus = corpus(thorough);
	let d_short = if thorough { 3 } else { 2 };
	let tallies = par_fold(&corpus, Tally::default, |t, idx, (src, input)| {
		let chunks: &[usize] = if thorough { &[0, 1, 2, 3, 7, 4096] } else { &[0, 1, 2, 3, 7] };
		for from in [Some(*src), None] {
			for to in F::ALL {
				let clean = run_reader(ChunkReader::new(input, 0), from, to);
				// --- reader faults at every offset
				let offsets: Vec<usize> = if input.len() <= 1300 {
					(0..=input.len()).collect()
				} else {
					let mut o: Vec<usize> = (0..=input.len()).step_by(211).collect();
					for edge in [4usize, 8192, 16384, 24576, input.len()] {
						o.extend((edge.saturating_sub(12)..=edge + 12).filter(|&k| k <= input.len()));
					}
					// the last 80 bytes hold the short documents: every offset there
					o.extend(input.len().saturating_sub(80)..=input.len());
					o.sort_unstable();
					o.dedup();
					o
				};
				for k in offsets {
					for &chunk in chunks {
						t.evaluations += 1;
						if let Some((class, msg)) = reader_fault_one(input, from, to, k, chunk, &clean) {
							t.bad(class, fault_case("reader-fault", input, from, to, k, chunk),
								format!("input={} from={} to={} reader fails after {k} bytes (chunk {chunk}): {msg}", show(input), fname(from), to.name()));
						}
						// the kind of the reader's error must not matter (detection trials dispatch on it)
						if chunk == 0 || chunk == 3 {
							for kind in &KINDS[1..] {
								t.evaluations += 1;
								t.count("reader-fault:other-error-kinds");
								if let Some((class, msg)) = reader_fault_kind(input, from, to, k, chunk, &clean, *kind) {
									let mut case = fault_case("reader-fault", input, from, to, k, chunk);
									case["error_kind"] = json!(format!("{kind:?}"));
									t.bad(format!("{class}:{kind:?}"), case,
										format!("input={} from={} to={} reader fails with kind {kind:?} after {k} bytes (chunk {chunk}): {msg}", show(input), fname(from), to.name()));
								}
							}
						}
					}
					t.nontrivial(fnv(&[input, fname(from).as_bytes(), to.name().as_bytes(), &k.to_le_bytes()]));
				}
				t.count(if clean.ok { "reader-fault:fault-free-ok" } else { "reader-fault:fault-free-err" });
				// --- schedule deviations before/around the fault (explorer offers 'fail' at each read)
				if thorough || input.len() <= 120 {
					let marks = newline_marks(input);
					let pol = crate::env::ReadPolicy { chunk: 0, faults: true, sizes: true, marks: marks.clone() };
					let dd = if thorough { 3 } else { 2 };
					let st = explore(dd, 40_000, |env| {
						let r = run_reader(SchedReader::new(input, env, pol.clone()), from, to);
						t.evaluations += 1;
						let faulted = env.borrow().log.iter().any(|&(k, n)| k == crate::env::K_READ && n == -1);
						let choices = env.borrow().choices();
						let bad = if r.panic.is_some() {
							Some("reader-fault-panic")
						} else if faulted && r.ok {
							Some("reader-fault-success")
						} else if faulted && clean.ok && !r.err.contains(INJECTED_READ) {
							Some("reader-fault-text-lost")
						} else if !faulted && !agree(&clean, &r) {
							Some("schedule-changes-result")
						} else {
							None
						};
						if let Some(class) = bad {
							if class == "schedule-changes-result" {
								// belongs to C02 (and its known classes); not judged here
								return;
							}
							t.bad(class, xlate_case(input, from, to, 0, &choices, true, true),
								format!("input={} from={} to={} choices={choices:?}: {}", show(input), fname(from), to.name(), r.brief()));
						}
					});
					t.states += st.runs;
					t.transitions += st.points;
					t.traces += st.runs;
					if st.capped {
						t.capped += 1;
					}
				}
				// --- writer faults and short writes need a successful fault-free run
				if !clean.ok {
					continue;
				}
				let woffsets: Vec<usize> = if clean.out.len() <= 1500 {
					(0..clean.out.len()).collect()
				} else {
					let mut o: Vec<usize> = (0..clean.out.len()).step_by(197).collect();
					for edge in [8192usize, 16384, 24576, clean.out.len()] {
						o.extend((edge.saturating_sub(12)..edge + 12).filter(|&k| k < clean.out.len()));
					}
					o.extend(clean.out.len().saturating_sub(80)..clean.out.len());
					o.sort_unstable();
					o.dedup();
					o
				};
				for k in woffsets {
					for reader in [false, true] {
						t.evaluations += 1;
						if let Some((class, msg)) = writer_fault_one(input, from, to, k, reader, &clean.out) {
							t.bad(class, fault_case(if reader { "writer-fault-reader" } else { "writer-fault-slice" }, input, from, to, k, 0),
								format!("input={} from={} to={} writer fails after {k} bytes ({}): {msg}", show(input), fname(from), to.name(), if reader { "reader" } else { "slice" }));
						}
					}
				}
				t.add("writer-fault:points", clean.out.len() as u64);
				for wchunk in [0usize, 1] {
					let st = explore(if wchunk == 0 { d_short } else { 0 }, 30_000, |env| {
						let (w, acc) = SchedWriter::new(env, WritePolicy { shorts: true, faults: false, chunk: wchunk });
						let (ok, err, panic) = run_reader_to(ChunkReader::new(input, 0), from, to, w);
						t.evaluations += 1;
						if !ok || panic.is_some() || *acc.borrow() != clean.out {
							let choices = env.borrow().choices();
							t.bad("short-write-changes-output",
								json!({"kind": "short-write", "input_hex": hex(input), "from": fname(from), "to": to.name(), "wchunk": wchunk, "choices": choices}),
								format!("input={} from={} to={} short writes {choices:?}: ok={ok} err={err} panic={panic:?} got {} want {}",
									show(input), fname(from), to.name(), show(&acc.borrow()), show(&clean.out)));
						}
					});
					t.states += st.runs;
					t.transitions += st.points;
					t.traces += st.runs;
					if st.capped {
						t.capped += 1;
					}
				}
				t.count("short-write:configs");
			}
		}
		if idx % 7 == 0 {
			t.sample(6, || json!({"input": show(input), "source": src.name(), "faults": "reader fails at every k in 0..=len; writer fails at every k in 0..len(out); short writes"}));
		}
	});
	let mut tally = Tally::merge_all(tallies);
	// --- large single documents (past the 2 MiB look-ahead cut-off of detection): the reader fails at
	// every ladder offset and around 2 MiB
	let larges = large_documents();
	let mut ljobs: Vec<(usize, Option<F>, usize, usize)> = vec![];
	for (i, (src, input, _)) in larges.iter().enumerate() {
		let mut offs = crate::gen::size_ladder(false);
		let m = 1usize << 21;
		offs.extend([0, 1, 4, m - 1, m, m + 1, m + 4096, input.len() - 1, input.len()]);
		for from in [Some(*src), None] {
			for &k in &offs {
				for chunk in [0usize, 65536] {
					ljobs.push((i, from, k, chunk));
				}
			}
		}
	}
	let cleans: Vec<Vec<crate::run::Outcome>> = larges.iter().map(|(src, input, _)| [Some(*src), None].iter().map(|&from| run_reader(ChunkReader::new(input, 0), from, F::Json)).collect()).collect();
	let tl = par_fold(&ljobs, Tally::default, |t, _, &(i, from, k, chunk)| {
		let (_, input, label) = &larges[i];
		let clean = &cleans[i][usize::from(from.is_none())];
		for kind in KINDS {
			t.evaluations += 1;
			t.count("reader-fault:large-documents");
			if let Some((class, msg)) = reader_fault_kind(input, from, F::Json, k, chunk, clean, kind) {
				t.bad(format!("{class}:large"), json!({"kind": "reader-fault-large", "document": label, "len": input.len(), "from": fname(from), "k": k, "chunk": chunk, "error_kind": format!("{kind:?}")}),
					format!("{label} document of {} bytes from={} to=json: reader fails ({kind:?}) after {k} bytes (chunk {chunk}): {msg}", input.len(), fname(from)));
			}
		}
		t.nontrivial(fnv(&[label.as_bytes(), fname(from).as_bytes(), &k.to_le_bytes()]));
	});
	tally.merge(Tally::merge_all(tl));
	// --- flush forwarding
	for to in F::ALL {
		for fail in [false, true] {
			let env = Env::new(if fail { vec![1] } else { vec![] });
			let (w, _) = SchedWriter::new(&env, WritePolicy { shorts: false, faults: true, chunk: 0 });
			let mut tr = xt::Translator::new(w, to.xt());
			let r = tr.flush();
			tally.evaluations += 1;
			tally.count("flush:cases");
			let good = match (&r, fail) {
				(Ok(()), false) => true,
				(Err(e), true) => e.to_string().contains(INJECTED_FLUSH),
				_ => false,
			};
			if !good {
				tally.bad("flush-not-forwarded", json!({"kind": "flush", "to": to.name(), "fail": fail}),
					format!("Translator::flush to={} with failing={fail} returned {r:?}", to.name()));
			}
		}
	}
	let req = |k: &str| (k.to_string(), *tally.counters.get(k).unwrap_or(&0));
	let required = vec![req("reader-fault:other-error-kinds"), req("reader-fault:fault-free-ok"), req("reader-fault:fault-free-err"), req("writer-fault:points"), req("short-write:configs"), req("flush:cases"), req("reader-fault:large-documents")];
	let _ = Rc::new(0);
	CheckOutput {
		level: "fault_enumeration",
		tally,
		rule: "large documents: one 2.2 MB JSON / MessagePack (str 32, bin 32) / YAML / TOML document (past the 2 MiB look-ahead of detection), named and detected, the reader failing with each of 4 error kinds at every ladder offset 2^k-1, 2^k, 2^k+1 (4 KiB..64 KiB) and at 2 MiB-1, 2 MiB, 2 MiB+1, 2 MiB+4096, len-1, len, delivered all at once and in 64 KiB reads. corpus: seed corpus of every format + valid multi-document streams (short ones: every offset; three long streams per format whose first document ends around 8 KiB / 16 KiB: every offset within 12 bytes of each buffer edge and of the end, every offset of the last 80 bytes, and every 211th); for each input x source in {explicit, detected} x 4 targets: (1) reader delivers exactly k bytes then fails forever, for EVERY k in 0..=len (k=len replaces the EOF answer) under each chunk policy, with the error kinds Other, UnexpectedEof, InvalidData and Interrupted (once, then Other); oracle: Err, no panic, injected text preserved whenever the fault-free run succeeds, complete documents of the partial output (target framing, last segment never counted) are a document-prefix of the fault-free output; plus explorer runs where 'fail' is offered at every read together with short-read deviations; (2) writer accepts exactly k bytes then fails, for EVERY k in 0..len(out), slice and reader: Err, accepted bytes are a prefix of the fault-free output; (3) every short-write schedule within the deviation bound and the all-1-byte policy: Ok and exactly the fault-free output; (4) Translator::flush forwards the writer's flush error. Distinct non-trivial = (input, source, target, fault offset).".into(),
		exhaustive: true,
		bounds: json!({"short_write_deviations": d_short, "reader_fault_offsets": "all", "writer_fault_offsets": "all"}),
		assumptions: vec!["failing readers/writers keep failing once they failed; Interrupted/Ok(0) are not offered".into()],
		required,
		extra: Default::default(),
	}
}

pub fn replay(case: &Value) -> Option<String> {
	let kind = case["kind"].as_str().unwrap_or("");
	let get = |k: &str| case[k].as_str().unwrap_or("").to_string();
	match kind {
		"reader-fault" => {
			let input = unhex(&get("input_hex"));
			let (from, to) = (F::parse(&get("from")), F::parse(&get("to")).unwrap());
			let clean = run_reader(ChunkReader::new(&input, 0), from, to);
			let kind = match case["error_kind"].as_str() {
				Some("UnexpectedEof") => std::io::ErrorKind::UnexpectedEof,
				Some("InvalidData") => std::io::ErrorKind::InvalidData,
				Some("Interrupted") => std::io::ErrorKind::Interrupted,
				_ => std::io::ErrorKind::Other,
			};
			reader_fault_kind(&input, from, to, case["k"].as_u64().unwrap() as usize, case["chunk"].as_u64().unwrap() as usize, &clean, kind).map(|x| x.1)
		}
		"reader-fault-large" => {
			let (_, input, _) = large_documents().into_iter().find(|d| d.2 == get("document"))?;
			let from = F::parse(&get("from"));
			let clean = run_reader(ChunkReader::new(&input, 0), from, F::Json);
			let kind = match case["error_kind"].as_str() {
				Some("UnexpectedEof") => std::io::ErrorKind::UnexpectedEof,
				Some("InvalidData") => std::io::ErrorKind::InvalidData,
				Some("Interrupted") => std::io::ErrorKind::Interrupted,
				_ => std::io::ErrorKind::Other,
			};
			reader_fault_kind(&input, from, F::Json, case["k"].as_u64().unwrap() as usize, case["chunk"].as_u64().unwrap() as usize, &clean, kind).map(|x| x.1)
		}
		"writer-fault-reader" | "writer-fault-slice" => {
			let input = unhex(&get("input_hex"));
			let (from, to) = (F::parse(&get("from")), F::parse(&get("to")).unwrap());
			let clean = run_reader(ChunkReader::new(&input, 0), from, to);
			writer_fault_one(&input, from, to, case["k"].as_u64().unwrap() as usize, kind == "writer-fault-reader", &clean.out).map(|x| x.1)
		}
		"short-write" => {
			let input = unhex(&get("input_hex"));
			let (from, to) = (F::parse(&get("from")), F::parse(&get("to")).unwrap());
			let clean = run_reader(ChunkReader::new(&input, 0), from, to);
			let choices: Vec<u16> = case["choices"].as_array().unwrap().iter().map(|x| x.as_u64().unwrap() as u16).collect();
			let env = Env::new(choices);
			let (w, acc) = SchedWriter::new(&env, WritePolicy { shorts: true, faults: false, chunk: case["wchunk"].as_u64().unwrap() as usize });
			let (ok, err, panic) = run_reader_to(ChunkReader::new(&input, 0), from, to, w);
			(!ok || panic.is_some() || *acc.borrow() != clean.out).then(|| format!("ok={ok} err={err} got {}", show(&acc.borrow())))
		}
		"xlate" => {
			let c = parse_xlate(case);
			let marks = newline_marks(&c.input);
			let env = Env::new(c.choices.clone());
			let r = run_reader(SchedReader::new(&c.input, &env, crate::env::ReadPolicy { chunk: c.chunk, faults: true, sizes: true, marks }), c.from, c.to);
			let faulted = env.borrow().log.iter().any(|&(k, n)| k == crate::env::K_READ && n == -1);
			let clean = run_reader(ChunkReader::new(&c.input, 0), c.from, c.to);
			if r.panic.is_some() || (faulted && r.ok) || (faulted && clean.ok && !r.err.contains(INJECTED_READ)) {
				Some(r.brief())
			} else {
				None
			}
		}
		_ => Some("unknown case kind".into()),
	}
}
