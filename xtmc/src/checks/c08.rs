//! C08 — TOML output is nothing or exactly one valid document.
//! (H) histories of calls on one Translator(TOML) against a boring reference model, plus
//! (I) refusals planted at every node of every small tree, keys and arrays of every style.

use std::cell::RefCell;

use serde_json::{json, Value};

use super::common::*;
use crate::model::V;
use crate::report::{CheckOutput, Ctx, Tally};
use crate::run::{guarded, ChunkReader, SharedBuf, F};
use crate::spell::{representable, spell_stream, Style};
use crate::tomlcheck::TomlBatch;
use crate::util::{fnv, hex, par_fold, show, unhex};
use crate::vals;

#[derive(Clone)]
pub struct Inp {
	pub src: F,
	pub bytes: Vec<u8>,
	/// documents in the input; None = the input is syntactically invalid somewhere
	pub docs: Option<Vec<V>>,
	pub reader: bool,
	pub label: String,
}

fn alphabet() -> Vec<Inp> {
	let t1 = V::map(vec![("a", V::Int(1)), ("t", V::map(vec![("x", V::s("y"))]))]);
	let t2 = V::map(vec![("b", V::Arr(vec![V::Int(1), V::Int(2)]))]);
	let lists: Vec<(Vec<V>, &str)> = vec![
		(vec![t1.clone()], "table"),
		(vec![t2.clone()], "table2"),
		(vec![V::Map(vec![])], "empty-table"),
		(vec![V::Arr(vec![V::Int(1)])], "array-root"),
		(vec![V::Int(5)], "scalar-root"),
		(vec![V::map(vec![("n", V::Null)])], "null-inside"),
		(vec![], "0docs"),
		(vec![t1.clone(), t2.clone()], "2docs"),
		(vec![V::Map(vec![]), t2.clone()], "empty-table+table"),
	];
	let mut a = vec![];
	for src in F::ALL {
		for (docs, label) in &lists {
			let Some(bytes) = spell_stream(src, docs, Style(0), 0) else { continue };
			for reader in [false, true] {
				a.push(Inp { src, bytes: bytes.clone(), docs: Some(docs.clone()), reader, label: format!("{}:{label}", src.name()) });
			}
		}
	}
	for (src, bytes) in [(F::Json, &b"{\"a\": tru}"[..]), (F::Yaml, b"a: [1\n"), (F::Msgpack, b"\x81\xa1a"), (F::Toml, b"a = \n")] {
		for reader in [false, true] {
			a.push(Inp { src, bytes: bytes.to_vec(), docs: None, reader, label: format!("{}:syntax-error", src.name()) });
		}
	}
	a
}

fn acceptable(v: &V) -> bool {
	representable(v, F::Toml)
}

struct CallObs {
	ok: bool,
	err: String,
	appended: Vec<u8>,
}

fn run_history(hist: &[&Inp]) -> (Vec<CallObs>, Option<String>) {
	let buf = RefCell::new(Vec::new());
	let mut tr = xt::Translator::new(SharedBuf(&buf), xt::Format::Toml);
	let mut obs = vec![];
	for inp in hist {
		let before = buf.borrow().len();
		let scratch = RefCell::new(Vec::new());
		let o = guarded(&scratch, || {
			if inp.reader {
				tr.translate_reader(ChunkReader::new(&inp.bytes, 3), Some(inp.src.xt()))
			} else {
				tr.translate_slice(&inp.bytes, Some(inp.src.xt()))
			}
		});
		if let Some(p) = o.panic {
			return (obs, Some(p));
		}
		let appended = buf.borrow()[before..].to_vec();
		obs.push(CallObs { ok: o.ok, err: o.err, appended });
	}
	(obs, None)
}

/// Reference model: which call must succeed, and which document (if any) each call writes.
/// Returns per call: (expected verdict or None = not judged, index of the document written).
fn model(hist: &[&Inp]) -> Vec<(Option<bool>, Option<V>)> {
	let mut used = false;
	let mut unknown = false; // a syntactically invalid input was seen: `used` is no longer determined
	let mut out = vec![];
	for inp in hist {
		let Some(docs) = &inp.docs else {
			out.push((Some(false), None));
			unknown = true;
			continue;
		};
		if docs.is_empty() && inp.src == F::Yaml && !inp.reader {
			// known defect (C02/C03 class yaml-slice-void-document): serde_yaml presents a
			// document-less YAML slice as one "void" document, so this call is not judged and
			// the one-use state after it is unknown
			out.push((None, None));
			unknown = true;
			continue;
		}
		let mut verdict = true;
		let mut written = None;
		for d in docs {
			if used {
				verdict = false;
				break;
			}
			used = true;
			if acceptable(d) {
				written = Some(d.clone());
			} else {
				verdict = false;
				break;
			}
		}
		out.push((if unknown && !docs.is_empty() { None } else { Some(verdict) }, if unknown { None } else { written }));
	}
	out
}

fn hist_case(hist: &[&Inp]) -> Value {
	json!({"kind": "toml-history", "calls": hist.iter().map(|i| json!({
		"src": i.src.name(), "bytes_hex": hex(&i.bytes), "text": show(&i.bytes), "reader": i.reader, "label": i.label,
		"docs": i.docs.as_ref().map(|d| d.iter().map(V::dump).collect::<Vec<_>>()),
	})).collect::<Vec<_>>()})
}

struct Acc {
	t: Tally,
	toml: TomlBatch,
}

fn judge_history(acc: &mut Acc, hist: &[&Inp]) {
	let (obs, panic) = run_history(hist);
	let label = hist.iter().map(|i| format!("{}{}", i.label, if i.reader { "/reader" } else { "/slice" })).collect::<Vec<_>>().join(", ");
	acc.t.evaluations += 1;
	if let Some(p) = panic {
		acc.t.bad("toml-history-panic", hist_case(hist), format!("history [{label}]: panic {p}"));
		return;
	}
	let m = model(hist);
	let mut total: Vec<u8> = vec![];
	let mut docs_written = 0;
	let mut determined = true;
	for (i, (o, (want_ok, want_doc))) in obs.iter().zip(m.iter()).enumerate() {
		total.extend_from_slice(&o.appended);
		if hist[i].docs.is_none() {
			determined = false;
		}
		if hist[i].docs.as_ref().is_some_and(Vec::is_empty) && hist[i].src == F::Yaml && !hist[i].reader {
			determined = false;
			if !o.ok {
				acc.t.bad("yaml-slice-void-document", hist_case(hist), format!("history [{label}]: call {i} (a YAML slice without documents) failed: {}", o.err));
			}
		}
		if let Some(w) = want_ok {
			if o.ok != *w {
				acc.t.bad(if *w { "toml-valid-document-refused" } else { "toml-refusal-missing" }, hist_case(hist),
					format!("history [{label}]: call {i} returned {} but the model says {}", if o.ok { "Ok".to_string() } else { format!("Err({})", o.err) }, if *w { "Ok" } else { "Err" }));
				return;
			}
		}
		if determined {
			match want_doc {
				None => {
					if !o.appended.is_empty() {
						acc.t.bad("toml-bytes-written-for-refused-document", hist_case(hist), format!("history [{label}]: call {i} wrote {} although no document of it is accepted", show(&o.appended)));
						return;
					}
				}
				Some(d) => {
					docs_written += 1;
					if !d.any(&|x| matches!(x, V::Map(m) if m.is_empty())) || true {
						acc.toml.push(Some(d.toml_reordered().dump()), o.appended.clone(), format!("history [{label}] call {i}"), hist_case(hist));
					}
				}
			}
		}
	}
	if determined && docs_written > 1 {
		acc.t.bad("toml-two-documents-written", hist_case(hist), format!("history [{label}]: {docs_written} documents written: {}", show(&total)));
	}
	// whatever happened: the bytes received are nothing or one valid document
	if !total.is_empty() {
		acc.toml.push(None, total, format!("history [{label}] total output"), hist_case(hist));
	}
}

// ------------------------------------------------------------------------------------------ (I)

fn planted(tree: &V, bad: &V, out: &mut Vec<V>) {
	// every way of replacing one node (value position) of `tree` by `bad`, and of wrapping positions
	fn go(v: &V, bad: &V, rebuild: &dyn Fn(V) -> V, out: &mut Vec<V>) {
		out.push(rebuild(bad.clone()));
		match v {
			V::Arr(a) => {
				for i in 0..a.len() {
					let a2 = a.clone();
					go(&a[i], bad, &|x| { let mut b = a2.clone(); b[i] = x; rebuild(V::Arr(b)) }, out);
				}
			}
			V::Map(m) => {
				for i in 0..m.len() {
					let m2 = m.clone();
					go(&m[i].1, bad, &|x| { let mut b = m2.clone(); b[i].1 = x; rebuild(V::Map(b)) }, out);
				}
			}
			_ => {}
		}
	}
	go(tree, bad, &|x| x, out);
}

fn single_case(src: F, bytes: &[u8], reader: bool, expect_ok: bool) -> Value {
	json!({"kind": "toml-single", "src": src.name(), "bytes_hex": hex(bytes), "text": show(bytes), "reader": reader, "expect_ok": expect_ok})
}

fn judge_single(acc: &mut Acc, v: &V, what: &str) {
	let ok_expected = acceptable(v);
	for src in [F::Json, F::Yaml, F::Msgpack] {
		let Some(bytes) = spell_stream(src, std::slice::from_ref(v), Style(0), 0) else { continue };
		for reader in [false, true] {
			let mode = if reader { Mode::Reader3 } else { Mode::Slice };
			let o = run_mode(&bytes, Some(src), F::Toml, mode);
			acc.t.evaluations += 1;
			acc.t.nontrivial(fnv(&[&bytes, src.name().as_bytes()]));
			if o.panic.is_some() {
				acc.t.bad("toml-panic", single_case(src, &bytes, reader, ok_expected), format!("{what}: {} -> TOML panicked: {}", show(&bytes), o.brief()));
				continue;
			}
			let common = !v.any(&|x| matches!(x, V::Bytes(_) | V::F32(_) | V::Other(_)) || matches!(x, V::Map(m) if m.iter().any(|(k, _)| !matches!(k, V::Str(_)))));
			if ok_expected {
				acc.t.count("single:accept-expected");
				if !o.ok {
					acc.t.bad("toml-valid-document-refused", single_case(src, &bytes, reader, true), format!("{what}: {} ({}) refused: {}", show(&bytes), src.name(), o.err));
				} else {
					acc.toml.push(Some(v.toml_reordered().dump()), o.out, format!("{what} from {}", src.name()), single_case(src, &bytes, reader, true));
				}
			} else if common {
				acc.t.count("single:refusal-expected");
				if o.ok {
					acc.t.bad("toml-refusal-missing", single_case(src, &bytes, reader, false), format!("{what}: {} ({}) must be refused but gave {}", show(&bytes), src.name(), o.brief()));
				} else if !o.out.is_empty() {
					acc.t.bad("toml-bytes-written-for-refused-document", single_case(src, &bytes, reader, false), format!("{what}: {} refused ({}) but wrote {}", show(&bytes), o.err, show(&o.out)));
				}
			} else {
				// outside the common model: only "nothing or one valid document"
				acc.t.count("single:outside-common-model");
				if !o.out.is_empty() {
					if !o.ok {
						acc.t.bad("toml-bytes-written-for-refused-document", single_case(src, &bytes, reader, false), format!("{what}: {} refused ({}) but wrote {}", show(&bytes), o.err, show(&o.out)));
					} else {
						// whatever xt chose to write must still read back as the input value (binary, non-string
						// keys etc. have no TOML form, so a successful run is only right if it finds one)
						acc.toml.push(Some(v.toml_reordered().dump()), o.out, format!("{what} from {} (outside the common model)", src.name()), single_case(src, &bytes, reader, true));
					}
				}
			}
		}
	}
}

/// One command-line invocation with a TOML target: the second input (or document) is refused with
/// exit 1 and stdout holds nothing but the first document.
fn cli_part(_toml: &mut TomlBatch) -> Tally {
	use crate::proc::{self, Exit, Spawn, Stdin, WorkDir};
	proc::assert_bins();
	let w = WorkDir::new("c08");
	w.write("t1.json", b"{\"a\":1}\n");
	w.write("t2.yaml", b"b: 2\n");
	w.write("t3.toml", b"c = 3\n");
	w.write("t4.msgpack", b"\x81\xa1d\x04");
	w.write("empty.json", b"{}\n");
	w.write("arr.json", b"[1]\n");
	w.write("null.yaml", b"n: ~\n");
	w.write("two.json", b"{\"a\":1}\n{\"b\":2}\n");
	let names = ["t1.json", "t2.yaml", "t3.toml", "t4.msgpack", "empty.json", "arr.json", "null.yaml", "two.json", "-"];
	let mut t = Tally::default();
	let mut lists: Vec<Vec<&str>> = vec![];
	for a in names {
		lists.push(vec![a]);
		for b in names {
			lists.push(vec![a, b]);
			for c in ["t1.json", "t3.toml", "-"] {
				lists.push(vec![a, b, c]);
			}
		}
	}
	for (i, list) in lists.iter().enumerate() {
		let mut args = vec!["-tt"];
		args.extend(list.iter().copied());
		let mut sp = Spawn::new(w.path(), &args);
		sp.stdin = Stdin::Bytes(b"s = \"stdin\"\n".to_vec());
		sp.release = i % 2 == 0;
		let o = proc::run(&sp);
		t.evaluations += 1;
		t.count("cli:toml-target-input-lists");
		let inputs: Vec<String> = list.iter().map(|s| s.to_string()).collect();
		let lib = super::c13::library_run(w.path(), &inputs, None, F::Toml, b"s = \"stdin\"\n");
		let good = match (&o.exit, lib.failed_at) {
			(Exit::Code(0), None) => o.stdout == lib.bytes,
			// nothing, or exactly the one complete document (which may still sit in the stdout buffer when
			// the input it belongs to fails afterwards); never a part of it
			(Exit::Code(1), Some(_)) => o.stdout == lib.bytes || (lib.complete.is_empty() && o.stdout.is_empty()),
			_ => false,
		};
		if !good {
			t.bad("cli-toml-output-not-one-document", json!({"kind": "cli-toml", "argv": args}), format!("xt {args:?}: {} | one Translator gives failed_at={:?} bytes={}", o.brief(), lib.failed_at, show(&lib.bytes)));
		}
	}
	// a document whose TOML rendering has every exact size around the buffer / pipe sizes (and just past
	// multiples of 64 KiB), followed by a second document that TOML output must refuse: stdout holds
	// nothing or exactly the first document
	let mut sizes = crate::gen::size_ladder(false);
	sizes.extend([65536 + 107, 65536 + 8000, 2 * 65536 + 7, 2 * 65536 + 4000]);
	let jobs: Vec<(usize, u8)> = sizes.iter().flat_map(|&s| (0..3u8).map(move |k| (s, k))).collect();
	let dir = w.path().to_path_buf();
	let tl = crate::util::par_fold(&jobs, Tally::default, |t, idx, &(size, kind)| {
		let z = "z".repeat(size - "p = \"\"\n".len());
		let doc = format!("p = \"{z}\"\n").into_bytes();
		assert!(doc.len() == size);
		let (data, args): (Vec<u8>, Vec<String>) = match kind {
			0 => (format!("{{\"p\":\"{z}\"}}\n{{\"b\":2}}\n").into_bytes(), vec!["-tt".into(), format!("big{idx}.json")]),
			1 => (format!("{{\"p\":\"{z}\"}}\n{{\"b\":2}}\n").into_bytes(), vec!["-tt".into(), "-fj".into()]),
			_ => (format!("p: {z}\n---\nb: 2\n").into_bytes(), vec!["-tt".into(), "-fy".into()]),
		};
		let argv: Vec<&str> = args.iter().map(String::as_str).collect();
		let mut sp = Spawn::new(&dir, &argv);
		if kind == 0 {
			std::fs::write(dir.join(&args[1]), &data).unwrap();
		} else {
			sp.stdin = Stdin::Bytes(data);
		}
		sp.release = idx % 2 == 0;
		let o = proc::run(&sp);
		if kind == 0 {
			let _ = std::fs::remove_file(dir.join(&args[1]));
		}
		t.evaluations += 1;
		t.count("cli:sized-document-then-refused-document");
		let supply = ["json file", "json stdin", "yaml stdin"][kind as usize];
		if o.exit != Exit::Code(1) || !(o.stdout.is_empty() || o.stdout == doc) {
			t.bad("cli-toml-output-not-one-document", json!({"kind": "cli-toml-sized", "size": size, "supply": supply}),
				format!("a {size}-byte TOML rendering followed by a second document ({supply}): {} with {} bytes on stdout (want exit 1 and nothing or exactly the {size}-byte document)", o.exit, o.stdout.len()));
		}
	});
	t.merge(Tally::merge_all(tl));
	t
}

/// A writer that fails ONCE after accepting k bytes of the document and works again afterwards, followed
/// by `Translator::flush`: whatever was handed to the writer must still be a prefix of the one document
/// (no byte of it may be written a second time, nothing may follow a document that was cut short).
fn transient_writer_part() -> Tally {
	use std::cell::RefCell;
	let mut t = Tally::default();
	let inputs: [(F, &[u8], bool); 4] = [
		(F::Json, b"{\"a\":1}", false),
		(F::Json, b"{\"name\":\"xt\",\"nested\":{\"k\":\"v\",\"l\":[1,2]}}", true),
		(F::Yaml, b"name: xt\nnested:\n  k: v\n", true),
		(F::Msgpack, b"\x82\xa1a\x01\xa1t\x81\xa1b\xc3", false),
	];
	for (src, input, reader) in inputs {
		let clean = if reader { crate::run::run_reader(crate::run::ChunkReader::new(input, 0), Some(src), F::Toml) } else { crate::run::run_slice(input, Some(src), F::Toml) };
		assert!(clean.ok, "MACHINERY: C08 transient-writer input does not translate");
		for k in 0..clean.out.len() {
			let (w, acc) = crate::env::FailAtWriter::once(k);
			let mut tr = xt::Translator::new(w, F::Toml.xt());
			let scratch = RefCell::new(Vec::new());
			let first = crate::run::guarded(&scratch, || if reader { tr.translate_reader(crate::run::ChunkReader::new(input, 0), Some(src.xt())) } else { tr.translate_slice(input, Some(src.xt())) });
			let flushed = crate::run::guarded(&scratch, || tr.flush().map_err(Into::into));
			drop(tr);
			t.evaluations += 1;
			t.count("transient-writer-fault-then-flush");
			let acc = acc.borrow();
			if first.panic.is_some() || flushed.panic.is_some() || !clean.out.starts_with(&acc) {
				t.bad("toml-bytes-written-after-a-failed-write", json!({"kind": "transient-writer", "src": src.name(), "input_hex": hex(input), "k": k, "reader": reader}),
					format!("{} -> TOML, the writer fails once after {k} bytes, then flush: the writer received {} which is not a prefix of the document {}", show(input), show(&acc), show(&clean.out)));
			}
		}
	}
	t
}

pub fn run(ctx: &Ctx) -> CheckOutput {
	let thorough = ctx.thorough();
	let alpha = alphabet();
	let mut hists: Vec<Vec<usize>> = vec![];
	for i in 0..alpha.len() {
		hists.push(vec![i]);
		for j in 0..alpha.len() {
			hists.push(vec![i, j]);
			if true {
				for k in 0..alpha.len() {
					if true {
						hists.push(vec![i, j, k]);
					}
				}
			}
		}
	}
	let mk = || Acc { t: Tally::default(), toml: TomlBatch::default() };
	let ah = par_fold(&hists, mk, |acc, idx, h| {
		let hist: Vec<&Inp> = h.iter().map(|&i| &alpha[i]).collect();
		judge_history(acc, &hist);
		acc.t.transitions += hist.len() as u64;
		acc.t.traces += 1;
		acc.t.nontrivial(fnv(&[&idx.to_le_bytes()]));
		acc.t.count(&format!("histories:len{}", hist.len()));
		if idx % 5003 == 0 {
			acc.t.sample(4, || json!({"toml_history": hist.iter().map(|i| i.label.clone()).collect::<Vec<_>>()}));
		}
	});
	// (I)
	let n = if thorough { 5 } else { 4 };
	let trees: Vec<V> = vals::trees(n, &[V::Int(1), V::s("a"), V::Bool(true), V::f(1.5)], &["a", "b", "c d", ""]).into_iter().filter(|t| matches!(t, V::Map(_))).collect();
	let bads = vec![
		("null", V::Null),
		("u64", V::Int((1i128 << 63) + 5)),
		("u64max", V::Int((1i128 << 64) - 1)),
		("int-key-map", V::Map(vec![(V::Int(1), V::s("v"))])),
		("bytes", V::Bytes(vec![1, 2, 3])),
		("null-in-array", V::Arr(vec![V::Int(1), V::Null])),
	];
	let mut singles: Vec<(V, String)> = vec![];
	for t in &trees {
		singles.push((t.clone(), "tree".into()));
		for (name, b) in &bads {
			let mut out = vec![];
			planted(t, b, &mut out);
			for v in out {
				singles.push((v, format!("planted-{name}")));
			}
		}
	}
	for root in [V::Null, V::Int(1), V::s("s"), V::Bool(true), V::f(1.0), V::Arr(vec![]), V::Arr(vec![V::map(vec![("a", V::Int(1))])])] {
		singles.push((root, "non-table-root".into()));
	}
	for k in vals::string_family() {
		singles.push((V::Map(vec![(V::s(&k), V::Int(1))]), "key-style".into()));
		singles.push((V::map(vec![("t", V::Map(vec![(V::s(&k), V::map(vec![("x", V::s(&k))]))]))]), "key-style-nested".into()));
	}
	let tbl = |i: i128| V::map(vec![("i", V::Int(i))]);
	for (v, what) in [
		(V::map(vec![("a", V::Arr(vec![]))]), "arrays"),
		(V::map(vec![("a", V::Arr(vec![V::Int(1), V::s("x"), V::f(2.5), V::Bool(true)]))]), "arrays-heterogeneous"),
		(V::map(vec![("a", V::Arr(vec![tbl(1), tbl(2)]))]), "array-of-tables"),
		(V::map(vec![("a", V::Arr(vec![tbl(1), V::Int(2)]))]), "array-mixed-tables"),
		(V::map(vec![("a", V::Arr(vec![V::Arr(vec![tbl(1)]), V::Arr(vec![])]))]), "array-of-arrays-of-tables"),
		(V::map(vec![("a", V::Arr(vec![V::map(vec![("b", V::Arr(vec![tbl(1), tbl(2)]))])]))]), "nested-array-of-tables"),
		(V::map(vec![("x", V::Int(1)), ("t", tbl(1)), ("y", V::Int(2)), ("u", V::Arr(vec![tbl(3)])), ("z", V::s("last"))]), "reordering"),
		(vals::chain(4, true, false, V::Int(1)), "nested-tables"),
		(V::map(vec![("i", V::Int(i128::from(i64::MAX))), ("j", V::Int(i128::from(i64::MIN)))]), "i64-edges"),
	] {
		singles.push((v, what.into()));
	}
	let ai = par_fold(&singles, mk, |acc, idx, (v, what)| {
		judge_single(acc, v, what);
		if idx % 3001 == 0 {
			acc.t.sample(4, || json!({"toml_single": what, "value": v.dump()}));
		}
	});
	let cli = cli_part(&mut TomlBatch::default());
	let mut tally = Tally::default();
	tally.merge(cli);
	tally.merge(transient_writer_part());
	let mut toml = TomlBatch::default();
	for a in ah.into_iter().chain(ai) {
		tally.merge(a.t);
		toml.merge(a.toml);
	}
	tally.states += hists.len() as u64;
	let (nread, bad) = toml.run("c08");
	tally.add("toml-outputs-read-by-tomllib", nread as u64);
	for (i, reason) in bad {
		let (exp, out, desc, case) = &toml.items[i];
		let got_v = reason.strip_prefix("value differs: got ").and_then(crate::model::parse_dump);
		let want_v = exp.as_ref().and_then(|e| crate::model::parse_dump(e));
		let class = match (&got_v, &want_v) {
			(Some(g), Some(w)) if explained_by_toml_nested_order(g, w) => "toml-nested-array-of-tables-before-tables",
			_ if reason.starts_with("value differs") => "toml-output-value-differs",
			_ => "toml-output-not-one-valid-document",
		};
		let detail = match (exp, reason.strip_prefix("value differs: got ").and_then(crate::model::parse_dump)) {
			(Some(e), Some(g)) => diff_classes(&[g], &[crate::model::parse_dump(e).unwrap()]).into_iter().map(|x| format!("{}: {}", x.0, x.1)).collect::<Vec<_>>().join("; "),
			_ => reason.clone(),
		};
		tally.bad(class, case.clone(), format!("{desc}: TOML output {}: {detail}", show(out)));
	}
	let req = |k: &str| (k.to_string(), *tally.counters.get(k).unwrap_or(&0));
	let required = vec![req("histories:len1"), req("histories:len2"), req("histories:len3"), req("single:accept-expected"), req("single:refusal-expected"), req("single:outside-common-model"), req("toml-outputs-read-by-tomllib"), req("cli:toml-target-input-lists"), req("cli:sized-document-then-refused-document"), req("transient-writer-fault-then-flush")];
	CheckOutput {
		level: "model_checking",
		tally,
		rule: format!("(H) alphabet of {} inputs (per source format: table, second table, empty table, array root, scalar root, null inside, 0 documents, 2 documents, empty table + table, syntax error; slice and reader); all histories of 1 and 2 calls and {} of 3 calls on ONE Translator(TOML), judged against a reference model (a document is refused once any document was presented before it; accepted iff table-rooted, null-free, ints within i64, string keys); per call the bytes appended must be exactly that document's TOML or nothing, the total must be nothing or ONE document that Python tomllib parses, equal to the table-reordered value. (I) every map-rooted tree with <= {} nodes, and every way of planting null / u64 / non-string key / binary / null-in-array at any node of it; non-table roots; every string of the string family as key (top-level and nested); array shapes (heterogeneous, of tables, of arrays of tables, mixed); from JSON, YAML and MessagePack, slice and reader. (CLI) every list of 1-3 inputs over 9 files/stdin with -t toml through the real binary: exit status and stdout equal those of ONE in-process Translator (the second document or input is refused, stdout holds the first document only); TOML renderings of every ladder size followed by a refused document (stdout: nothing or exactly the document). A writer that fails once after k bytes (every k) and then recovers, followed by Translator::flush: what it received stays a prefix of the one document.", alpha.len(), "all", n),
		exhaustive: true,
		bounds: json!({"history_depth": 3, "tree_nodes": n}),
		assumptions: vec![
			"after a syntactically invalid input the verdict of later calls is not judged (the statement does not say whether such an input counts as the first document); output validity is still judged".into(),
			"inputs with zero documents are not required to be refused".into(),
			"Python tomllib decides validity of TOML".into(),
		],
		required,
		extra: Default::default(),
	}
}

pub fn replay(case: &Value) -> Option<String> {
	let mut acc = Acc { t: Tally::default(), toml: TomlBatch::default() };
	match case["kind"].as_str().unwrap_or("") {
		"toml-history" => {
			let inps: Vec<Inp> = case["calls"].as_array().unwrap().iter().map(|c| Inp {
				src: F::parse(c["src"].as_str().unwrap()).unwrap(),
				bytes: unhex(c["bytes_hex"].as_str().unwrap()),
				docs: c["docs"].as_array().map(|a| a.iter().map(|d| crate::model::parse_dump(d.as_str().unwrap()).unwrap()).collect()),
				reader: c["reader"].as_bool().unwrap(),
				label: c["label"].as_str().unwrap().to_string(),
			}).collect();
			let hist: Vec<&Inp> = inps.iter().collect();
			judge_history(&mut acc, &hist);
		}
		_ => {
			let src = F::parse(case["src"].as_str().unwrap()).unwrap();
			let bytes = unhex(case["bytes_hex"].as_str().unwrap());
			let mode = if case["reader"].as_bool().unwrap() { Mode::Reader3 } else { Mode::Slice };
			let o = run_mode(&bytes, Some(src), F::Toml, mode);
			let expect_ok = case["expect_ok"].as_bool().unwrap();
			if o.panic.is_some() || o.ok != expect_ok || (!o.ok && !o.out.is_empty()) {
				return Some(o.brief());
			}
			if o.ok {
				acc.toml.push(None, o.out, String::new(), Value::Null);
			}
		}
	}
	if let Some((_, (_, b))) = acc.t.bad.iter().next() {
		return Some(b.detail.clone());
	}
	let (_, bad) = acc.toml.run("replay");
	bad.first().map(|(i, r)| format!("{}: {r}", show(&acc.toml.items[*i].1)))
}
