//! C09 — format detection is a transparent, total pre-selection step.
//! (H) BFS over operation programs on the real rewindable input handle, to fixpoint, plus
//! (I)x(S) detection differential.

use std::collections::{HashMap, VecDeque};
use std::io::Read;
use std::panic::{catch_unwind, AssertUnwindSafe};

use serde_json::{json, Value};
use xt::verif::{HandleProbe, OwnedInput, RefObs, RefOp};

use super::common::*;
use crate::env::{explore, SchedReader};
use crate::gen;
use crate::report::{CheckOutput, Ctx, Tally};
use crate::run::{detect_reader, detect_slice, fname, Outcome, F};
use crate::util::{fnv, par_fold, show, unhex};

// ---------------------------------------------------------------------------------------
// Part A: the handle state space
// ---------------------------------------------------------------------------------------

/// Deterministic source: answer sizes follow `pattern` cyclically (0 = everything asked for).
struct PatternReader {
	data: Vec<u8>,
	pos: usize,
	pattern: &'static [usize],
	i: usize,
	reads_after_eof: u32,
	eof_seen: bool,
}

impl Read for PatternReader {
	fn read(&mut self, buf: &mut [u8]) -> std::io::Result<usize> {
		if buf.is_empty() {
			return Ok(0);
		}
		let rem = self.data.len() - self.pos;
		let mut n = buf.len().min(rem);
		let p = self.pattern[self.i % self.pattern.len()];
		self.i += 1;
		if p > 0 {
			n = n.min(p);
		}
		if n == 0 {
			if self.eof_seen {
				self.reads_after_eof += 1;
			}
			self.eof_seen = true;
		}
		buf[..n].copy_from_slice(&self.data[self.pos..self.pos + n]);
		self.pos += n;
		Ok(n)
	}
}

const PATTERNS: [&[usize]; 5] = [&[0], &[1], &[2], &[3], &[1, 2]];

type Program = Vec<RefOp>;
type Hist = Vec<Program>;

fn data_of(n: usize) -> Vec<u8> {
	(1..=n as u8).collect()
}

/// Canonical key of the handle after a history: everything its future behaviour can depend on.
/// (n and the pattern phase fix the source's future; captured bytes are determined by source_pos.)
#[derive(Clone, PartialEq, Eq, Hash, Debug)]
struct Key {
	captured_len: usize,
	cursor_pos: u64,
	source_eof: bool,
	source_pos: usize,
	phase: usize,
}

fn key_after(n: usize, pat: usize, hist: &[Program]) -> (Option<Key>, Option<String>, Vec<(bool, Vec<RefObs>)>) {
	let mut src = PatternReader { data: data_of(n), pos: 0, pattern: PATTERNS[pat], i: 0, reads_after_eof: 0, eof_seen: false };
	let r = catch_unwind(AssertUnwindSafe(|| {
		let data = data_of(n);
		let mut probe = HandleProbe::from_reader(&mut src);
		let mut fail: Option<String> = None;
		let mut obs_all = vec![];
		let mut captured_before = 0usize;
		for prog in hist {
			let st_before = probe.state();
			let (is_slice, obs) = probe.borrow(prog);
			let mut pos = 0usize;
			if is_slice {
				if let Some(st) = st_before {
					if !st.source_eof || st.captured_len != n {
						fail.get_or_insert(format!("Ref::Slice handed out before the source was exhausted (state {st:?})"));
					}
				}
			}
			for (op, o) in prog.iter().zip(obs.iter()) {
				match (op, o) {
					(RefOp::Read(b), RefObs::Read(Ok(bytes))) => {
						if bytes.len() > *b || data.get(pos..pos + bytes.len()) != Some(&bytes[..]) {
							fail.get_or_insert(format!("read({b}) at {pos} returned {bytes:?}, data {data:?}"));
						}
						if bytes.is_empty() && *b > 0 && pos < n {
							fail.get_or_insert(format!("read({b}) at {pos} returned 0 bytes before the end of the data"));
						}
						pos += bytes.len();
					}
					(RefOp::Prefix(b), RefObs::Prefix(Ok(bytes))) => {
						if !data.starts_with(bytes) {
							fail.get_or_insert(format!("prefix({b}) returned {bytes:?}, not a prefix of {data:?}"));
						}
						if bytes.len() < (*b).min(n) {
							fail.get_or_insert(format!("prefix({b}) returned only {} bytes of {n}", bytes.len()));
						}
						if bytes.len() < captured_before {
							fail.get_or_insert("prefix shrank the captured bytes".to_string());
						}
						if is_slice && bytes.len() != n {
							fail.get_or_insert("slice prefix is not the whole data".to_string());
						}
					}
					(op, o) => {
						fail.get_or_insert(format!("operation {op:?} failed: {o:?}"));
					}
				}
			}
			if let Some(st) = probe.state() {
				captured_before = st.captured_len;
			}
			obs_all.push((is_slice, obs));
		}
		let st = probe.state().expect("reader handle has a state");
		drop(probe);
		(st, fail, obs_all)
	}));
	match r {
		Ok((st, fail, obs)) => {
			let mut fail = fail;
			(
				Some(Key {
					captured_len: st.captured_len,
					cursor_pos: st.cursor_pos,
					source_eof: st.source_eof,
					source_pos: src.pos,
					phase: src.i % PATTERNS[pat].len(),
				}),
				fail,
				obs,
			)
		}
		Err(_) => (None, Some(format!("panic: {}", crate::run::take_panic().unwrap_or_default())), vec![]),
	}
}

/// Takes ownership after `hist` both ways and checks that exactly the data comes out.
fn check_ownership(n: usize, pat: usize, hist: &[Program]) -> Option<String> {
	let data = data_of(n);
	for way in 0..4 {
		let mut src = PatternReader { data: data.clone(), pos: 0, pattern: PATTERNS[pat], i: 0, reads_after_eof: 0, eof_seen: false };
		let r = catch_unwind(AssertUnwindSafe(|| {
			let mut probe = HandleProbe::from_reader(&mut src);
			for prog in hist {
				probe.borrow(prog);
			}
			match way {
				0 => probe.into_cow().map_err(|e| e.to_string()),
				_ => match probe.into_input() {
					OwnedInput::Slice(b) => Ok(b),
					OwnedInput::Reader(mut r) => {
						let mut out = vec![];
						let chunk = [0usize, 1, 2, 5][way];
						loop {
							let mut buf = vec![0u8; chunk.max(1)];
							match r.read(&mut buf) {
								Ok(0) => break,
								Ok(k) => out.extend_from_slice(&buf[..k]),
								Err(e) => return Err(e.to_string()),
							}
						}
						Ok(out)
					}
				},
			}
		}));
		match r {
			Ok(Ok(bytes)) if bytes == data => {}
			Ok(Ok(bytes)) => return Some(format!("ownership way {way} yielded {bytes:?}, expected {data:?}")),
			Ok(Err(e)) => return Some(format!("ownership way {way} failed: {e}")),
			Err(_) => return Some(format!("ownership way {way} panicked: {}", crate::run::take_panic().unwrap_or_default())),
		}
	}
	None
}

fn programs(n: usize, max_ops: usize) -> Vec<Program> {
	let mut ops = vec![];
	for b in 0..=n + 1 {
		ops.push(RefOp::Read(b));
		ops.push(RefOp::Prefix(b));
	}
	let mut out: Vec<Program> = vec![vec![]];
	let mut layer: Vec<Program> = vec![vec![]];
	for _ in 0..max_ops {
		let mut next = vec![];
		for p in &layer {
			for o in &ops {
				let mut q = p.clone();
				q.push(*o);
				next.push(q);
			}
		}
		out.extend(next.iter().cloned());
		layer = next;
	}
	out
}

fn hist_json(n: usize, pat: usize, hist: &[Program]) -> Value {
	json!({
		"kind": "handle", "n": n, "pattern": pat,
		"history": hist.iter().map(|p| p.iter().map(|o| match o {
			RefOp::Read(b) => format!("read({b})"),
			RefOp::Prefix(b) => format!("prefix({b})"),
		}).collect::<Vec<_>>()).collect::<Vec<_>>(),
	})
}

fn parse_hist(case: &Value) -> (usize, usize, Hist) {
	let n = case["n"].as_u64().unwrap() as usize;
	let pat = case["pattern"].as_u64().unwrap() as usize;
	let hist = case["history"]
		.as_array()
		.unwrap()
		.iter()
		.map(|p| {
			p.as_array()
				.unwrap()
				.iter()
				.map(|o| {
					let s = o.as_str().unwrap();
					let b: usize = s[s.find('(').unwrap() + 1..s.len() - 1].parse().unwrap();
					if s.starts_with("read") {
						RefOp::Read(b)
					} else {
						RefOp::Prefix(b)
					}
				})
				.collect()
		})
		.collect();
	(n, pat, hist)
}

/// BFS to fixpoint for one (n, pattern) configuration.
fn bfs(t: &mut Tally, n: usize, pat: usize, max_ops: usize) {
	let progs = programs(n, max_ops);
	let mut seen: HashMap<Key, (Hist, Option<Hist>)> = HashMap::new();
	let mut frontier: VecDeque<Hist> = VecDeque::new();
	let (k0, f0, _) = key_after(n, pat, &[]);
	let k0 = k0.expect("initial state");
	assert!(f0.is_none());
	seen.insert(k0, (vec![], None));
	frontier.push_back(vec![]);
	while let Some(hist) = frontier.pop_front() {
		if let Some(msg) = check_ownership(n, pat, &hist) {
			t.bad("handle-ownership", hist_json(n, pat, &hist), format!("n={n} pattern={pat} history={hist:?}: {msg}"));
		}
		t.transitions += 4;
		for prog in &progs {
			let mut h2 = hist.clone();
			h2.push(prog.clone());
			let (key, fail, _) = key_after(n, pat, &h2);
			t.transitions += 1;
			t.evaluations += 1;
			if let Some(msg) = fail {
				t.bad("handle-invariant", hist_json(n, pat, &h2), format!("n={n} pattern={pat} history={h2:?}: {msg}"));
				continue;
			}
			let key = key.unwrap();
			match seen.get_mut(&key) {
				None => {
					seen.insert(key, (h2.clone(), None));
					frontier.push_back(h2);
				}
				Some((first, second)) => {
					if second.is_none() && *first != h2 {
						*second = Some(h2);
					}
				}
			}
		}
	}
	t.states += seen.len() as u64;
	t.add("handle:states", seen.len() as u64);
	// Validate the canonicalisation: two histories with the same key must have the same future.
	let probes: Vec<Program> = vec![
		vec![RefOp::Read(1), RefOp::Prefix(n + 1), RefOp::Read(n + 1)],
		vec![RefOp::Prefix(1), RefOp::Read(2), RefOp::Read(n)],
		vec![RefOp::Read(n + 1), RefOp::Read(1)],
	];
	for (key, (a, b)) in &seen {
		if let Some(b) = b {
			for p in &probes {
				let mut ha = a.clone();
				ha.push(p.clone());
				ha.push(p.clone());
				let mut hb = b.clone();
				hb.push(p.clone());
				hb.push(p.clone());
				let (ka, _, oa) = key_after(n, pat, &ha);
				let (kb, _, ob) = key_after(n, pat, &hb);
				t.count("handle:key-validation-probes");
				let la = &oa[oa.len() - 2..];
				let lb = &ob[ob.len() - 2..];
				if ka != kb || la != lb {
					panic!("MACHINERY: canonical key {key:?} merges states with different futures: {a:?} vs {b:?}");
				}
			}
		}
	}
}

// ---------------------------------------------------------------------------------------
// Part B: detection differential
// ---------------------------------------------------------------------------------------

fn same_full(a: &Outcome, b: &Outcome) -> bool {
	// partial output of a failed run legitimately depends on the read schedule (C02 only asks for
	// prefix-comparability), so bytes are compared exactly on success and as prefixes on failure
	a.panic.is_none() && b.panic.is_none() && a.ok == b.ok && a.err == b.err && agree(a, b)
}

fn extra_inputs() -> Vec<Vec<u8>> {
	let mut v: Vec<Vec<u8>> = vec![];
	// every truncation of MessagePack collection seeds
	for s in gen::seeds(F::Msgpack) {
		for i in 0..=s.len().min(64) {
			v.push(s[..i].to_vec());
		}
	}
	// every first byte that is a MessagePack collection marker, followed by short tails
	for first in (0x80u8..=0x9f).chain(0xdc..=0xdf) {
		for tail in [&b""[..], b"\x00", b"\x01\x02", b": 1\n", b"\x80: 1\n", b"\x00\x01\x01", b"\x00\x00\x00\x01\x01"] {
			let mut x = vec![first];
			x.extend_from_slice(tail);
			v.push(x);
		}
	}
	// text starting with U+0700..U+07FF (UTF-8 lead bytes DC..DF)
	for cp in [0x700u32, 0x701, 0x73f, 0x740, 0x77f, 0x780, 0x7bf, 0x7c0, 0x7ff] {
		let ch = char::from_u32(cp).unwrap();
		for tail in [": 1\n", " = 1\n", "\n", "", "- a\n"] {
			v.push(format!("{ch}{tail}").into_bytes());
			v.push(format!("\"{ch}\"{tail}").into_bytes());
		}
	}
	// TOML on which the YAML trial gives up early, longer than what detection captured by then, with
	// multi-byte characters across every plausible capture boundary (8 KiB and 16 KiB, all alignments)
	for boundary in [8192usize, 16384] {
		for ch in ["é", "€", "😀"] {
			for align in 0..ch.len() {
				let mut s = String::from("[t]\nx = 1 # c: d\ny = \"");
				let pad = boundary - 60 + align - s.len();
				s.push_str(&"p".repeat(pad));
				for _ in 0..40 {
					s.push_str(ch);
				}
				s.push_str(&"q".repeat(9000));
				s.push_str("\"\n");
				v.push(s.into_bytes());
			}
		}
	}
	// nesting around and beyond each format's depth limit: a trial that gives up on depth is still just
	// a trial that does not match
	for depth in [127usize, 128, 129, 1022, 1023, 1024, 1025, 1500] {
		let nest = |open: &[u8], close: &[u8], leaf: &[u8]| {
			let mut x = vec![];
			for _ in 0..depth {
				x.extend_from_slice(open);
			}
			x.extend_from_slice(leaf);
			for _ in 0..depth {
				x.extend_from_slice(close);
			}
			x
		};
		v.push(nest(b"\x91", b"", b"\x01"));
		v.push(nest(b"\x81\xa1k", b"", b"\x01"));
		v.push(nest(b"\x81", b"\x01", b"\x01")); // nesting in map-key position
		v.push(nest(b"\xdc\x00\x01", b"", b"\xc0"));
		v.push(nest(b"[", b"]", b"1"));
		v.push(nest(b"{\"a\":", b"}", b"1"));
		v.push(nest(b"{a: ", b"}", b"1"));
	}
	// exact sizes around every buffer size (first document of a stream / leading comment block)
	for l in gen::sized_streams(F::Json, false).into_iter().chain(gen::sized_streams(F::Msgpack, false)).chain(gen::yaml_layouts(false).into_iter().filter(|l| l.label.ends_with("sep0"))) {
		v.push(l.bytes);
	}
	// inputs several formats accept
	for s in ["{}", "[]", "[1, 2]", "{\"a\": 1}", "a = 1", "[t]", "[t]\na = 1\n", "k = \"a: b\"", "1", "true", "\"s\"", "- 1", "a: 1"] {
		v.push(s.as_bytes().to_vec());
	}
	v
}

fn classify(input: &[u8], detected: Option<F>, via_reader_none: &Outcome, slice_explicit: Option<&Outcome>, reader_explicit: Option<&Outcome>, to: F) -> String {
	// A reader that detection drained to EOF is handed to the translator as a slice; where the
	// slice and reader programs of a format differ (C02's known classes) the detected run follows
	// the other supply mode. Attribute such cases to the C02 class.
	if let (Some(f), Some(se), Some(re)) = (detected, slice_explicit, reader_explicit) {
		if same_full(via_reader_none, se) {
			if !agree(se, re) {
				let c = super::c02::classify(input, Some(f), to, se, re);
				if !c.starts_with("unexplained") && !c.starts_with("panic") {
					return format!("via-c02:{c}");
				}
			} else if !se.ok && se.err != re.err {
				// same verdict and bytes in both supply modes, only the error text of the
				// slice program differs from the reader program's
				return "drained-reader-reports-slice-error-text".into();
			}
		}
	}
	format!("detect-differs:{}", fname(detected))
}

fn check_detect(t: &mut Tally, input: &[u8], d: usize, targets: &[F]) {
	let ds = detect_slice(input);
	t.evaluations += 1;
	let case0 = |mode: &str, chunk: usize, choices: &[u16]| {
		json!({"kind": "detect", "input_hex": crate::util::hex(input), "input_text": show(input), "mode": mode,
			"policy_chunk": chunk, "choices": choices})
	};
	let fs = match &ds {
		Ok(f) => *f,
		Err(e) => {
			t.bad("detect-error-slice", case0("slice", 0, &[]), format!("input={} detect(slice) failed: {e}", show(input)));
			return;
		}
	};
	t.count(&format!("detected:{}", fname_detect(fs)));
	for &to in targets {
		// slice: None vs explicit
		let sn = slice(input, None, to);
		match fs {
			None => {
				if sn.ok || sn.err != "unable to detect input format" || !sn.out.is_empty() {
					t.bad("undetected-but-translated", xlate_case(input, None, to, 0, &[], false, false),
						format!("input={} detect=None but translate(None) gave {}", show(input), sn.brief()));
				}
			}
			Some(f) => {
				let se = slice(input, Some(f), to);
				if !same_full(&sn, &se) {
					t.bad(format!("slice-detected-vs-explicit:{}", f.name()), xlate_case(input, None, to, 0, &[], false, false),
						format!("input={} detected {} (slice): None {} | explicit {}", show(input), f.name(), sn.brief(), se.brief()));
				}
			}
		}
		if sn.ok {
			t.nontrivial(fnv(&[input, to.name().as_bytes()]));
		}
		// reader: every schedule
		let marks = newline_marks(input);
		let big = input.len() > 4096;
		let chunks: &[usize] = if input.len() <= 2 { &[0] } else if input.len() > 100_000 { &[0, 65536] } else if big { &[0, 4093] } else { &[0, 1] };
		let mut explicit: HashMap<F, (Outcome, Outcome, Outcome)> = HashMap::new();
		for &chunk in chunks {
			let pol = policy(chunk, true, false, &marks);
			let st = explore(if big { 0 } else if input.len() > 12 { d.min(1) } else { d }, 12000, |env| {
				let dr = detect_reader(SchedReader::new(input, env, pol.clone()));
				let choices = env.borrow().choices();
				t.evaluations += 1;
				let fr = match dr {
					Ok(f) => f,
					Err(e) => {
						t.bad("detect-error-reader", case0("reader", chunk, &choices),
							format!("input={} chunk={chunk} choices={choices:?}: detect(reader) failed: {e}", show(input)));
						return;
					}
				};
				if sn.ok && fr != fs {
					t.bad("detect-slice-vs-reader", case0("reader", chunk, &choices),
						format!("input={} translates, but slice detects {} and reader (chunk={chunk} choices={choices:?}) detects {}",
							show(input), fname_detect(fs), fname_detect(fr)));
				}
				// the translator must see the complete unaltered stream: the detected run under this
				// schedule must equal the explicit run (whose outcome C02 shows to be schedule-independent;
				// fixed policies all-at-once and 1-byte are used as the explicit references)
				let (rn, _) = run_sched(input, None, to, pol.clone(), &choices);
				match fr {
					None => {
						if rn.ok || rn.err != "unable to detect input format" {
							t.bad("undetected-but-translated", xlate_case(input, None, to, chunk, &choices, true, false),
								format!("input={} reader detect=None but translate(None) gave {}", show(input), rn.brief()));
						}
					}
					Some(f) => {
						let refs = explicit.entry(f).or_insert_with(|| {
							(
								crate::run::run_reader(crate::run::ChunkReader::new(input, 0), Some(f), to),
								crate::run::run_reader(crate::run::ChunkReader::new(input, 1), Some(f), to),
								slice(input, Some(f), to),
							)
						});
						if !same_full(&rn, &refs.0) && !same_full(&rn, &refs.1) {
							let class = classify(input, Some(f), &rn, Some(&refs.2), Some(&refs.0), to);
							t.bad(class, xlate_case(input, None, to, chunk, &choices, true, false),
								format!("input={} detected {} (reader chunk={chunk} choices={choices:?}): None {} | explicit {}",
									show(input), f.name(), rn.brief(), refs.0.brief()));
						}
					}
				}
			});
			t.states += st.runs;
			t.transitions += st.points;
			t.traces += st.runs;
			if st.capped {
				t.capped += 1;
			}
		}
	}
}

fn fname_detect(f: Option<F>) -> &'static str {
	f.map_or("none", F::name)
}

pub fn run(ctx: &Ctx) -> CheckOutput {
	let thorough = ctx.thorough();
	// Part A
	let (nmax, max_ops) = if thorough { (6, 3) } else { (4, 3) };
	let mut cfgs = vec![];
	for n in 0..=nmax {
		for pat in 0..PATTERNS.len() {
			// 3-op programs only for the smaller data sizes (cost grows as (2n+4)^3 per state)
			let ops = if n > (if thorough { 4 } else { 2 }) { max_ops.min(2) } else { max_ops };
			cfgs.push((n, pat, ops));
		}
	}
	let ta = par_fold(&cfgs, Tally::default, |t, _, &(n, pat, ops)| {
		bfs(t, n, pat, ops);
		t.count("handle:configurations");
	});
	// Part B
	let d = if thorough { 2 } else { 1 };
	let mut inputs: Vec<Vec<u8>> = super::c02::corpus(thorough).into_iter().map(|j| j.input).collect();
	inputs.extend(extra_inputs());
	inputs.extend(gen::all_bytes(2));
	let inputs = gen::dedup(inputs);
	let targets: Vec<F> = if thorough { vec![F::Json, F::Toml] } else { vec![F::Json] };
	let tb = par_fold(&inputs, Tally::default, |t, idx, input| {
		check_detect(t, input, d, &targets);
		t.count("detect:inputs");
		if idx % 20011 == 0 {
			t.sample(4, || json!({"detect_input": show(input)}));
		}
	});
	// Part C: an input source that reports an I/O error during detection (or afterwards): the run must end
	// with that error - never with success on the bytes delivered so far, never with "unable to detect"
	let mut small: Vec<Vec<u8>> = vec![];
	for f in F::ALL {
		small.extend(gen::seeds(f).into_iter().filter(|s| s.len() <= 48));
	}
	for s in ["a=1\n", "a = 1\nb = 2\n", "[t]\nx = 1\n", "k: v\n", "- 1\n- 2\n", "{\"a\":1}\n", "[1,2]", "\u{feff}a: 1\n", "# c\na = 1\n"] {
		small.push(s.as_bytes().to_vec());
	}
	small.push(vec![0x82, 0xa1, b'a', 0x01, 0xa1, b'b', 0x92, 0x01, 0x02]);
	let small = gen::dedup(small);
	let tc = par_fold(&small, Tally::default, |t, _, input| {
		// only inputs that translate when nothing fails: a malformed input may legitimately be refused for
		// what it is before the source's failure is ever seen
		if !crate::run::run_reader(crate::run::ChunkReader::new(input, 0), None, F::Json).ok {
			t.count("detect:reader-faults:input-refused-anyway");
			return;
		}
		for k in 0..=input.len() {
			for chunk in [0usize, 1, 3] {
				for kind in super::c12::KINDS {
					let r = crate::run::run_reader(crate::env::FailAtReader::new(input, k, chunk).with_kind(kind), None, F::Json);
					t.evaluations += 1;
					t.count("detect:reader-faults");
					let bad = if r.panic.is_some() {
						Some("panic")
					} else if r.ok {
						Some("failing-source-but-success")
					} else if !r.err.contains(crate::env::INJECTED_READ) {
						Some("failing-source-error-not-reported")
					} else {
						None
					};
					if let Some(class) = bad {
						t.bad(format!("detect-{class}"), json!({"kind": "detect-fault", "input_hex": crate::util::hex(input), "input_text": show(input), "k": k, "chunk": chunk, "error_kind": format!("{kind:?}")}),
							format!("input={} read with detection, the source fails ({kind:?}) after {k} bytes (chunk {chunk}): {}", show(input), r.brief()));
					}
				}
			}
		}
	});
	let mut tally = Tally::merge_all(ta);
	tally.merge(Tally::merge_all(tb));
	tally.merge(Tally::merge_all(tc));
	tally.sample(8, || json!({"handle_history_example": "n=3 pattern=[1,2]: borrow[read(1),prefix(4)] ; borrow[read(4)] ; into_input + drain"}));
	let req = |k: &str| (k.to_string(), *tally.counters.get(k).unwrap_or(&0));
	let required = vec![
		req("handle:states"), req("handle:key-validation-probes"), req("detected:json"), req("detected:yaml"),
		req("detected:toml"), req("detected:msgpack"), req("detected:none"), req("detect:reader-faults"),
	];
	CheckOutput {
		level: "model_checking",
		tally,
		rule: format!(
			"(A) explicit-state BFS to fixpoint over the real input handle (hook HandleProbe): data sizes 0..={nmax}, 5 source answer patterns, transitions = one borrow running any program of <= {max_ops} operations from {{read(b), prefix(b): b in 0..=n+1}}; states keyed on (captured_len, cursor_pos, source_eof, source_offset, pattern phase) read from the real object; reference model (byte string + offset) checked on every operation; both ways of taking ownership (Cow; Input drained with 4 chunkings) from every state; key validated by probe suffixes. (B) detection differential over the C02 corpus + truncated MessagePack collections + collection-marker first bytes + U+0700-07FF texts + all byte strings <= 2: detection never errs, None => 'unable to detect input format', Some F => translate(None) == translate(F) in verdict, bytes and error text for slice and for every reader schedule with <= {d} deviations, and slice/reader detect the same format for inputs that translate. (C) every seed input of <= 48 bytes that translates when nothing fails, read with detection from a source that fails (4 error kinds) after every byte offset, three chunkings: the run ends with the source's error text, never with success or 'unable to detect input format'. Non-trivial = input translates successfully with detection."
		),
		exhaustive: true,
		bounds: json!({"handle_data_sizes": nmax, "handle_ops_per_borrow": max_ops, "deviations": d}),
		assumptions: vec![
			"source readers are deterministic and honour the Read contract; reading a source again after EOF is permitted (documented by xt)".into(),
			"the handle's future depends only on the canonical key (validated at run time by probe suffixes from two histories per key)".into(),
		],
		required,
		extra: Default::default(),
	}
}

pub fn replay(case: &Value) -> Option<String> {
	match case["kind"].as_str().unwrap_or("") {
		"handle" => {
			let (n, pat, hist) = parse_hist(case);
			let (_, fail, _) = key_after(n, pat, &hist);
			fail.or_else(|| check_ownership(n, pat, &hist))
		}
		"detect-fault" => {
			let input = unhex(case["input_hex"].as_str().unwrap());
			let kind = match case["error_kind"].as_str() {
				Some("UnexpectedEof") => std::io::ErrorKind::UnexpectedEof,
				Some("InvalidData") => std::io::ErrorKind::InvalidData,
				Some("Interrupted") => std::io::ErrorKind::Interrupted,
				_ => std::io::ErrorKind::Other,
			};
			if !crate::run::run_reader(crate::run::ChunkReader::new(&input, 0), None, F::Json).ok {
				return None;
			}
			let r = crate::run::run_reader(crate::env::FailAtReader::new(&input, case["k"].as_u64().unwrap() as usize, case["chunk"].as_u64().unwrap() as usize).with_kind(kind), None, F::Json);
			(r.panic.is_some() || r.ok || !r.err.contains(crate::env::INJECTED_READ)).then(|| r.brief())
		}
		"detect" => {
			let input = unhex(case["input_hex"].as_str().unwrap());
			if case["mode"] == "slice" {
				return detect_slice(&input).err();
			}
			let choices: Vec<u16> = case["choices"].as_array().unwrap().iter().map(|x| x.as_u64().unwrap() as u16).collect();
			let chunk = case["policy_chunk"].as_u64().unwrap() as usize;
			let env = crate::env::Env::new(choices);
			let marks = newline_marks(&input);
			let fr = detect_reader(SchedReader::new(&input, &env, policy(chunk, true, false, &marks)));
			match fr {
				Err(e) => Some(format!("detect(reader) failed: {e}")),
				Ok(fr) => {
					let fs = detect_slice(&input).ok().flatten();
					let sn = slice(&input, None, F::Json);
					if sn.ok && fs != fr {
						Some(format!("slice detects {} but reader detects {}", fname_detect(fs), fname_detect(fr)))
					} else {
						None
					}
				}
			}
		}
		_ => {
			let c = parse_xlate(case);
			let marks = newline_marks(&c.input);
			let pol = policy(c.chunk, c.sizes, false, &marks);
			if !c.sizes {
				// slice comparison
				let sn = slice(&c.input, None, c.to);
				return match detect_slice(&c.input) {
					Err(e) => Some(e),
					Ok(None) => (sn.ok || sn.err != "unable to detect input format").then(|| sn.brief()),
					Ok(Some(f)) => {
						let se = slice(&c.input, Some(f), c.to);
						(!same_full(&sn, &se)).then(|| format!("None {} | explicit {}", sn.brief(), se.brief()))
					}
				};
			}
			let env = crate::env::Env::new(c.choices.clone());
			let fr = detect_reader(SchedReader::new(&c.input, &env, pol.clone()));
			let (rn, _) = run_sched(&c.input, None, c.to, pol.clone(), &c.choices);
			match fr {
				Err(e) => Some(e),
				Ok(None) => (rn.ok || rn.err != "unable to detect input format").then(|| rn.brief()),
				Ok(Some(f)) => {
					let r0 = crate::run::run_reader(crate::run::ChunkReader::new(&c.input, 0), Some(f), c.to);
					let r1 = crate::run::run_reader(crate::run::ChunkReader::new(&c.input, 1), Some(f), c.to);
					(!same_full(&rn, &r0) && !same_full(&rn, &r1)).then(|| {
						let se = slice(&c.input, Some(f), c.to);
						format!("class={} None {} | explicit {} {}", classify(&c.input, Some(f), &rn, Some(&se), Some(&r0), c.to), rn.brief(), f.name(), r0.brief())
					})
				}
			}
		}
	}
}

