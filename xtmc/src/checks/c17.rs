//! C17 — memory safety of the YAML parser binding and decoders.
//! Fault enumeration under AddressSanitizer (worker processes from the ASan build of this harness):
//! read schedules, reader errors at every offset, over-reporting readers of every excess at every
//! read index, early drops of the parser at every event and of the chunker after every document.
//! Leaks are found by per-job live-heap accounting (counting allocator).

use std::io::Read;
use std::panic::{catch_unwind, AssertUnwindSafe};
use std::path::PathBuf;

use serde_json::{json, Value};

use crate::env::{explore, FailAtReader, ReadPolicy, SchedReader};
use crate::gen;
use crate::report::{CheckOutput, Ctx, Tally};
use crate::run::{run_reader, run_slice, ChunkReader, F};
use crate::util::{fnv, hex, show, unhex};

const WARMUP_INPUT: &[u8] = b"a: [1, 2]\n---\nb\n";

pub fn asan_exe() -> PathBuf {
	PathBuf::from("/verif/.build/asan-target/x86_64-unknown-linux-gnu/release/xtmc")
}

/// A reader that, at its `at`-th read call, claims to have read `excess` bytes more than it did
/// (violating the Read contract).
struct OverReader<'a> {
	data: &'a [u8],
	pos: usize,
	calls: usize,
	at: usize,
	excess: usize,
	chunk: usize,
}

impl Read for OverReader<'_> {
	fn read(&mut self, buf: &mut [u8]) -> std::io::Result<usize> {
		let mut n = buf.len().min(self.data.len() - self.pos);
		if self.chunk > 0 {
			n = n.min(self.chunk);
		}
		buf[..n].copy_from_slice(&self.data[self.pos..self.pos + n]);
		self.pos += n;
		let i = self.calls;
		self.calls += 1;
		if i == self.at {
			return Ok(buf.len().saturating_add(self.excess));
		}
		Ok(n)
	}
}

pub fn inputs(thorough: bool) -> Vec<Vec<u8>> {
	let mut v: Vec<Vec<u8>> = gen::token_seqs(&gen::alphabet(F::Yaml), if thorough { 4 } else { 3 });
	let seeds = gen::seeds(F::Yaml);
	v.extend(seeds.iter().cloned());
	v.extend(gen::linebreak_variants(F::Yaml));
	for s in &seeds {
		v.extend(gen::single_edits(s, if thorough { 200 } else { 24 }));
	}
	// directives (owned by DOCUMENT-START events), tags, anchors
	for s in [
		"%YAML 1.2\n---\na: 1\n", "%TAG !e! tag:example.com,2000:\n---\n!e!x 1\n", "%YAML 1.2\n%TAG ! tag:a.b,2000:\n--- !t\n- 1\n...\n%YAML 1.2\n---\n2\n",
		"--- !!map {a: !!int 1}\n", "&a [*a]", "a: &x {b: *x}\n",
	] {
		v.push(s.as_bytes().to_vec());
	}
	// UTF-16/32 spellings
	for t in ["a: 1\n", "- \"é😀\"\n- x\n", "k: [1, 2]\n---\n\"second\"\n"] {
		for enc in 0..4 {
			v.push(super::c01::encode_text(t, enc));
		}
	}
	// ill-formed and boundary UTF-16 / UTF-32 code units (every surrogate class pair), as YAML content
	let units: [u16; 12] = [0x0041, 0xD7FF, 0xD800, 0xD801, 0xDBFF, 0xDC00, 0xDC01, 0xDFFF, 0xE000, 0xFFFD, 0xFFFE, 0xFFFF];
	for a in units {
		for b in units {
			for be in [false, true] {
				let us = [0xFEFFu16, 0x0061, 0x003A, 0x0020, a, b, 0x000A];
				v.push(us.iter().flat_map(|u| if be { u.to_be_bytes() } else { u.to_le_bytes() }).collect());
			}
		}
	}
	for x in [0xD800u32, 0xDFFF, 0x110000, 0x10FFFF, 0xFFFFFFFF, 0x80000000] {
		let mut b = vec![0xFF, 0xFE, 0, 0, 0x61, 0, 0, 0, 0x3A, 0, 0, 0, 0x20, 0, 0, 0];
		b.extend(x.to_le_bytes());
		v.push(b);
	}
	// multi-byte characters across the parser's 16 KiB raw-buffer edges, with plenty of input after them
	for boundary in [8192usize, 16384, 24576, 32768] {
		for ch in ["é", "€", "😀"] {
			for align in 0..ch.len() {
				let mut s = format!("k: \"{}", "p".repeat(boundary - 60 + align));
				for _ in 0..40 {
					s.push_str(ch);
				}
				s.push_str(&"q".repeat(40_000));
				s.push_str("\"\n---\nnext: doc\n");
				v.push(s.into_bytes());
			}
		}
	}
	gen::dedup(v)
}

fn guard<T>(f: impl FnOnce() -> T) -> Option<T> {
	match catch_unwind(AssertUnwindSafe(f)) {
		Ok(x) => Some(x),
		Err(_) => {
			let _ = crate::run::take_panic();
			None
		}
	}
}

/// Everything that is done to one input. Outcomes are Ok / Err / caught panic: all acceptable; the
/// sanitizer (process death) and the leak accounting are the oracles.
fn exercise(input: &[u8], d: usize, t: &mut Tally) {
	exercise_masked(input, d, t, u32::MAX);
}

fn exercise_masked(input: &[u8], d: usize, t: &mut Tally, mask: u32) {
	let small = input.len() <= 64;
	// schedules through the public API, explicit and detected
	for from in [Some(F::Yaml), None] {
		if mask & 1 == 0 {
			break;
		}
		let _ = run_slice(input, from, F::Json);
		t.evaluations += 1;
		if small {
			let pol = ReadPolicy { chunk: 0, faults: true, sizes: true, marks: std::rc::Rc::new(vec![]) };
			let st = explore(d, 400, |env| {
				let _ = run_reader(SchedReader::new(input, env, pol.clone()), from, F::Json);
				t.evaluations += 1;
			});
			t.states += st.runs;
			t.transitions += st.points;
			t.traces += st.runs;
		} else {
			for chunk in [0usize, 1, 4093] {
				let _ = run_reader(ChunkReader::new(input, chunk), from, F::Json);
				t.evaluations += 1;
			}
		}
		// reader error at every offset (long inputs: a spread of offsets and the buffer edges)
		let offs: Vec<usize> = if input.len() <= 200 { (0..=input.len()).collect() } else { (0..=input.len()).step_by(input.len() / 40).chain([4, 8191, 8192, 8193, 16383, 16384, 16385]).filter(|&k| k <= input.len()).collect() };
		for k in offs {
			let _ = run_reader(FailAtReader::new(input, k, 0), from, F::Yaml);
			t.evaluations += 1;
		}
	}
	t.count("exercise:schedules+reader-errors");
	// the chunker and the parser directly (hooks): normal end, early drops
	let chunks = guard(|| xt::verif::yaml_chunks(ChunkReader::new(input, 0), None)).map_or(0, |c| c.len());
	let events = guard(|| xt::verif::yaml_events(ChunkReader::new(input, 0), None)).map_or(0, |e| e.0.len());
	t.evaluations += 2;
	for stop in 0..=chunks.min(6) {
		if mask & 2 == 0 {
			break;
		}
		for chunk in [0usize, 3] {
			guard(|| xt::verif::yaml_chunks(ChunkReader::new(input, chunk), Some(stop)));
			t.evaluations += 1;
		}
	}
	let ev_stops: Vec<usize> = if events <= 24 { (0..=events).collect() } else { (0..=8).chain(events - 3..=events).collect() };
	for stop in ev_stops {
		if mask & 4 == 0 {
			break;
		}
		guard(|| xt::verif::yaml_events(ChunkReader::new(input, 0), Some(stop)));
		guard(|| xt::verif::yaml_events(FailAtReader::new(input, input.len() / 2, 0), Some(stop)));
		t.evaluations += 2;
	}
	t.count("exercise:early-drops");
	// over-reporting readers: every excess at every read index, into the parser, the chunker and the public API
	let deep = d >= 2;
	let max_reads = if small && deep { 6 } else { 4 };
	for at in 0..max_reads {
		if mask & 8 == 0 {
			break;
		}
		let excesses: &[usize] = if deep { &[1, 2, 3, 4, 16, 4096, usize::MAX / 2] } else { &[1, 4, 4096, usize::MAX / 2] };
		for &excess in excesses {
			for chunk in [0usize, 1] {
				for op in 0..5u8 {
					// returns true when the operation ended in a (caught) panic
					let run_op = || -> bool {
						let rd = OverReader { data: input, pos: 0, calls: 0, at, excess, chunk };
						match op {
							0 => guard(|| xt::verif::yaml_events(rd, None)).is_none(),
							1 => guard(|| xt::verif::yaml_chunks(rd, None)).is_none(),
							2 => guard(|| {
								xt::verif::yaml_reencode(std::io::BufReader::with_capacity(7, rd)).map(|mut r| {
									let mut sink = vec![];
									let _ = r.read_to_end(&mut sink);
								})
							})
							.is_none(),
							3 => run_reader(rd, Some(F::Yaml), F::Json).panic.is_some(),
							_ => run_reader(rd, None, F::Json).panic.is_some(),
						}
					};
					let before = crate::alloc::live();
					let mut panicked = run_op();
					let _ = crate::run::take_panic();
					let mut after = crate::alloc::live();
					t.evaluations += 1;
					if after.0 > before.0 {
						// confirm: a one-off lazy allocation does not repeat
						let b2 = crate::alloc::live();
						panicked = run_op();
						let _ = crate::run::take_panic();
						after = crate::alloc::live();
						if after.0 > b2.0 {
							// the known class is the handful of blocks (at most 7; 6 is the largest number observed on the pinned tree over the whole thorough tier: the tokens / strings under construction) owned by raw pointers in libyaml
							// frames that an unwind skips; the parser's own buffers (tens of KiB) must still be
							// released by Parser::drop
							if panicked {
								t.max("panic-path-leak:blocks", (after.1 - b2.1) as u64);
								t.max("panic-path-leak:bytes", (after.0 - b2.0) as u64);
							}
							let class = if panicked && after.1 - b2.1 <= 7 { "leak-when-a-panic-unwinds-through-libyaml" } else if panicked { "large-leak-on-the-panic-path" } else { "leak" };
							t.bad(class, json!({"kind": "memory", "input_hex": if input.len() <= 4096 { hex(input) } else { String::new() }, "input_len": input.len(), "input_text": show(&input[..input.len().min(120)]), "op": op, "at": at, "excess": excess, "chunk": chunk}),
								format!("YAML input {}: over-reporting reader (read #{at} claims buf.len()+{excess}, chunk {chunk}) into {}: {} bytes in {} block(s) stay allocated after each pass{}", show(&input[..input.len().min(80)]), ["the parser", "the chunker", "the re-encoder", "translate_reader(yaml)", "translate_reader(detect)"][op as usize], after.0 - b2.0, after.1 - b2.1, if panicked { " (the pass ends in a caught panic raised inside libyaml's read callback)" } else { "" }));
						}
					}
				}
			}
		}
	}
	t.count("exercise:over-reporting-readers");
}

/// Worker entry (normally the ASan build): `xtmc worker C17 <tier> <part> <nparts> <start> <progress>`.
pub fn worker(tier: &str, _part: usize, nparts: usize, start: usize, progress: &str) {
	crate::isolate::limit_address_space(if cfg!(xtmc_asan) { 0 } else { 24 });
	let thorough = tier == "thorough";
	let inputs = inputs(thorough);
	let prog = crate::isolate::Progress::open(progress);
	let mut t = Tally::default();
	let d = if thorough { 2 } else { 1 };
	// warm-up so that one-time lazy allocations are out of the way
	let mut warm = Tally::default();
	prog.set(crate::isolate::WARMUP);
	exercise(WARMUP_INPUT, 1, &mut warm);
	let mut i = start;
	while i < inputs.len() {
		prog.set(i as u64);
		let input = &inputs[i];
		let mut scratch = Tally::default();
		for k in ["exercise:schedules+reader-errors", "exercise:early-drops", "exercise:over-reporting-readers", "schedules:x"] {
			scratch.add(k, 0);
		}
		// over-reporting readers are measured per operation inside; the rest as a whole, with the
		// scratch tally alive on both sides of the measurement (its keys exist already)
		exercise_masked(input, d, &mut scratch, 8);
		let before = crate::alloc::live();
		exercise_masked(input, d, &mut scratch, 7);
		let _ = crate::run::take_panic();
		let after = crate::alloc::live();
		if after.0 != before.0 {
			// a real leak repeats; a lazily initialised one-off does not
			let b2 = crate::alloc::live();
			exercise_masked(input, d, &mut scratch, 7);
			let _ = crate::run::take_panic();
			let a2 = crate::alloc::live();
			if a2.0 > b2.0 {
				t.bad("leak", json!({"kind": "memory", "input_hex": if input.len() <= 4096 { hex(input) } else { String::new() }, "input_len": input.len(), "input_text": show(&input[..input.len().min(120)])}),
					format!("YAML input {} leaks {} bytes in {} block(s) per pass (schedules, reader errors, early drops; live heap after the pass vs before)", show(&input[..input.len().min(120)]), a2.0 - b2.0, a2.1 - b2.1));
			}
		}
		let (ev, st, tr, trc) = (scratch.evaluations, scratch.states, scratch.transitions, scratch.traces);
		for (class, (n, b)) in std::mem::take(&mut scratch.bad) {
			t.bad(class.clone(), b.case, b.detail);
			if let Some(e) = t.bad.get_mut(&class) {
				e.0 += n - 1;
			}
		}
		for (k, v) in std::mem::take(&mut scratch.maxes) {
			t.max(&k, v);
		}
		let counters = std::mem::take(&mut scratch.counters);
		drop(scratch);
		t.evaluations += ev;
		t.states += st;
		t.transitions += tr;
		t.traces += trc;
		for (k, v) in counters {
			t.add(&k, v);
		}
		t.nontrivial(fnv(&[input]));
		if i % 3001 == 0 {
			t.sample(3, || json!({"yaml_input": show(&input[..input.len().min(100)]), "len": input.len()}));
		}
		i += nparts;
	}
	t.count(if cfg!(xtmc_asan) { "workers:asan-build" } else { "workers:plain-build" });
	std::fs::write(format!("{progress}.tally"), crate::isolate::tally_to_json(&t).to_string()).expect("MACHINERY: cannot write tally");
}

pub fn run(ctx: &Ctx) -> CheckOutput {
	let thorough = ctx.thorough();
	let all = inputs(thorough);
	let exe = asan_exe();
	assert!(exe.exists(), "MACHINERY: the AddressSanitizer build of the harness is missing ({}); run /verif/check setup", exe.display());
	let env = vec![("ASAN_OPTIONS".to_string(), "detect_leaks=0:abort_on_error=1:allocator_may_return_null=1:detect_stack_use_after_return=0".to_string())];
	let merged = crate::isolate::run_isolated(&exe, &env, "C17", &ctx.tier, crate::util::threads(), all.len(), std::time::Duration::from_secs(120), &|idx| {
		let input: &[u8] = if idx == usize::MAX { WARMUP_INPUT } else { &all[idx] };
		(json!({"kind": "memory", "input_hex": if input.len() <= 4096 { hex(input) } else { String::new() }, "input_len": input.len(), "input_text": show(&input[..input.len().min(120)])}),
			format!("YAML input #{idx} ({} bytes) {}", input.len(), show(&input[..input.len().min(120)])))
	});
	let mut tally = merged.tally;
	for i in 0..merged.distinct_sum {
		tally.distinct.insert(i);
	}
	if thorough {
		// Miri (aliasing model, uninitialised memory) on one execution per path class
		let out = std::process::Command::new("cargo")
			.args(["+nightly", "miri", "run", "--offline", "--", "c17-miri"])
			.current_dir("/verif/xtmc")
			.env("MIRIFLAGS", "-Zmiri-disable-isolation -Zmiri-ignore-leaks")
			.env("CARGO_TARGET_DIR", "/verif/.build/miri-target")
			.output();
		match out {
			Ok(o) => {
				let stdout = String::from_utf8_lossy(&o.stdout);
				let stderr = String::from_utf8_lossy(&o.stderr);
				if o.status.success() && stdout.contains("MIRI-PASS-COMPLETE") {
					tally.add("miri:executions", stdout.split_whitespace().last().and_then(|n| n.parse().ok()).unwrap_or(0));
					tally.evaluations += 60;
				} else if stderr.contains("Undefined Behavior") || stderr.contains("error: unsupported operation") && false {
					let tail: Vec<&str> = stderr.lines().filter(|l| l.contains("error") || l.contains("Undefined") || l.contains(" at src/")).take(12).collect();
					tally.bad("miri-undefined-behaviour", json!({"kind": "miri", "stderr": tail}), format!("Miri reports undefined behaviour in the reduced pass: {}", tail.join(" | ")));
				} else {
					eprintln!("note: the Miri pass could not be run ({}); it is not part of the verdict", stderr.lines().last().unwrap_or("?"));
					tally.count("miri:unavailable");
				}
			}
			Err(e) => {
				eprintln!("note: cargo miri could not be started ({e}); it is not part of the verdict");
				tally.count("miri:unavailable");
			}
		}
	}
	let req = |k: &str| (k.to_string(), *tally.counters.get(k).unwrap_or(&0));
	let required = vec![req("workers:asan-build"), req("exercise:schedules+reader-errors"), req("exercise:early-drops"), req("exercise:over-reporting-readers")];
	CheckOutput {
		level: "fault_enumeration",
		tally,
		rule: format!("{} YAML-as-source inputs (all token sequences of length <= {}, seed corpus and single-edit neighbours, directive/tag/anchor documents, UTF-16/32 spellings, multi-byte characters across every 8 KiB multiple up to 32 KiB in all alignments followed by 40 KB more input); for each, in worker processes built with AddressSanitizer: explicit and detected translation from a slice and under every read schedule with <= {} deviation(s) where 'fail now' is an alternative at every read; a reader error at EVERY byte offset; the chunker abandoned after every document and the parser abandoned after every event index (hooks yaml_chunks / yaml_events), also over a failing reader; over-reporting readers claiming buf.len()+e for e in {{1,4,4096,usize::MAX/2}} (thorough: {{1,2,3,4,16,4096,usize::MAX/2}}) at each of the first 4 (thorough: 6) read calls, fed to the parser, the chunker, the re-encoder and the public API. Oracle: the worker survives (any ASan report aborts it and is attributed to the input in flight), every outcome is Ok, Err or a caught panic, and the live heap of the thread returns to its level before the input (a leak that repeats on a second pass is a violation).", all.len(), if thorough { 4 } else { 3 }, if thorough { 2 } else { 1 }),
		exhaustive: true,
		bounds: json!({"deviations": if thorough { 2 } else { 1 }}),
		assumptions: vec![
			"AddressSanitizer sees out-of-bounds accesses, use-after-free and double frees in Rust code including unsafe-libyaml (which is Rust); uninitialised reads and aliasing violations are outside its reach (see DESIGN.md for the Miri run)".into(),
			"leaks are measured with the harness's counting GlobalAlloc on the translating thread".into(),
		],
		required,
		extra: Default::default(),
	}
}

pub fn replay(case: &Value) -> Option<String> {
	let hexs = case["input_hex"].as_str().unwrap_or("");
	if hexs.is_empty() {
		return Some("input too large for the replay file; re-run the check".into());
	}
	let input = unhex(hexs);
	// run the exercise in an ASan child so that a report is observable
	let exe = asan_exe();
	let path = format!("/verif/.work/c17-replay-{}.bin", std::process::id());
	std::fs::write(&path, &input).ok()?;
	let out = std::process::Command::new(exe).args(["c17-one", &path]).env("ASAN_OPTIONS", "detect_leaks=0:abort_on_error=1").output().ok()?;
	let _ = std::fs::remove_file(&path);
	if out.status.success() {
		None
	} else {
		Some(format!("ASan child: {:?}; {}", out.status, String::from_utf8_lossy(&out.stderr).lines().take(6).collect::<Vec<_>>().join(" | ")))
	}
}

/// `xtmc c17-miri`: a reduced pass meant to run under Miri (Stacked/Tree Borrows, uninitialised
/// reads): one execution per path class on a few small inputs. No over-reporting into the chunker
/// (that path panics by design and leaks, which Miri would report as a leak, not as UB).
pub fn miri_pass() {
	let inputs: Vec<Vec<u8>> = vec![
		b"a: 1\n".to_vec(),
		b"---\n- x\n- [1, 2]\n...\n---\n\"s\"\n".to_vec(),
		b"%YAML 1.2\n---\nk: &a v\nl: *a\n".to_vec(),
		b"a: [1\n".to_vec(),
		super::c01::encode_text("k: \"\u{e9}\u{1f600}\"\n", 0),
		super::c01::encode_text("- a\n- b\n", 3),
		vec![0xFE, 0xFF, 0x00, 0x61, 0x00, 0x3A, 0x00, 0x20, 0xDC, 0x00, 0xDC, 0x01, 0x00, 0x0A],
		vec![0xFF, 0xFE, 0x61, 0x00, 0x3A, 0x00, 0x20, 0x00, 0x00, 0xD8, 0x41, 0x00, 0x0A, 0x00],
	];
	for input in &inputs {
		let _ = run_slice(input, Some(F::Yaml), F::Json);
		let _ = run_slice(input, None, F::Json);
		let _ = run_reader(ChunkReader::new(input, 1), Some(F::Yaml), F::Json);
		let _ = run_reader(ChunkReader::new(input, 0), None, F::Yaml);
		let _ = run_reader(FailAtReader::new(input, input.len() / 2, 0), Some(F::Yaml), F::Json);
		guard(|| xt::verif::yaml_chunks(ChunkReader::new(input, 3), Some(1)));
		guard(|| xt::verif::yaml_events(ChunkReader::new(input, 0), Some(2)));
		guard(|| xt::verif::yaml_events(ChunkReader::new(input, 0), None));
		guard(|| xt::verif::yaml_events(OverReader { data: input, pos: 0, calls: 0, at: 0, excess: 1, chunk: 0 }, None));
		guard(|| xt::verif::yaml_events(OverReader { data: input, pos: 0, calls: 0, at: 1, excess: usize::MAX / 2, chunk: 2 }, None));
	}
	println!("MIRI-PASS-COMPLETE {}", inputs.len() * 10);
}

/// Debug aid: live-heap delta of each kind of operation on one input.
pub fn probe(path: &str) {
	let input = std::fs::read(path).expect("input file");
	let mut t = Tally::default();
	exercise(&input, 1, &mut t);
	let m = |name: &str, f: &mut dyn FnMut()| {
		f();
		let b = crate::alloc::live();
		f();
		let _ = crate::run::take_panic();
		let a = crate::alloc::live();
		println!("{name}: {} bytes / {} blocks", a.0 - b.0, a.1 - b.1);
	};
	for mask in [1u32, 2, 4, 8] {
		m(&format!("exercise-section-{mask}"), &mut || { let mut t = Tally::default(); exercise_masked(&input, 1, &mut t, mask); });
	}
	for at in 0..3usize {
		for excess in [1usize, 16, 4096, usize::MAX / 2] {
			for chunk in [0usize, 1] {
				for op in 0..5 {
					let mut f = || match op {
						0 => { guard(|| xt::verif::yaml_events(OverReader { data: &input, pos: 0, calls: 0, at, excess, chunk }, None)); }
						1 => { guard(|| xt::verif::yaml_chunks(OverReader { data: &input, pos: 0, calls: 0, at, excess, chunk }, None)); }
						2 => { guard(|| xt::verif::yaml_reencode(std::io::BufReader::with_capacity(7, OverReader { data: &input, pos: 0, calls: 0, at, excess, chunk })).map(|mut r| { let mut sink = vec![]; let _ = r.read_to_end(&mut sink); })); }
						3 => { let _ = run_reader(OverReader { data: &input, pos: 0, calls: 0, at, excess, chunk }, Some(F::Yaml), F::Json); }
						_ => { let _ = run_reader(OverReader { data: &input, pos: 0, calls: 0, at, excess, chunk }, None, F::Json); }
					};
					f();
					let b = crate::alloc::live();
					f();
					let _ = crate::run::take_panic();
					let a = crate::alloc::live();
					if a != b {
						println!("LEAK op={op} at={at} excess={excess} chunk={chunk}: {} bytes / {} blocks", a.0 - b.0, a.1 - b.1);
					}
				}
			}
		}
	}
	m("slice", &mut || { let _ = run_slice(&input, Some(F::Yaml), F::Json); });
	m("reader", &mut || { let _ = run_reader(ChunkReader::new(&input, 1), Some(F::Yaml), F::Json); });
	m("reader-detect", &mut || { let _ = run_reader(ChunkReader::new(&input, 1), None, F::Json); });
	m("failat", &mut || { let _ = run_reader(FailAtReader::new(&input, 2, 0), Some(F::Yaml), F::Yaml); });
	m("failat-detect", &mut || { let _ = run_reader(FailAtReader::new(&input, 2, 0), None, F::Yaml); });
	m("chunks", &mut || { guard(|| xt::verif::yaml_chunks(ChunkReader::new(&input, 0), Some(1))); });
	m("events", &mut || { guard(|| xt::verif::yaml_events(ChunkReader::new(&input, 0), Some(2))); });
	m("events-failat", &mut || { guard(|| xt::verif::yaml_events(FailAtReader::new(&input, 2, 0), None)); });
	m("over-events", &mut || { guard(|| xt::verif::yaml_events(OverReader { data: &input, pos: 0, calls: 0, at: 0, excess: 1, chunk: 0 }, None)); });
	m("over-chunks", &mut || { guard(|| xt::verif::yaml_chunks(OverReader { data: &input, pos: 0, calls: 0, at: 0, excess: 1, chunk: 0 }, None)); });
	m("over-reencode", &mut || { guard(|| xt::verif::yaml_reencode(std::io::BufReader::with_capacity(7, OverReader { data: &input, pos: 0, calls: 0, at: 0, excess: 1, chunk: 0 })).map(|mut r| { let mut sink = vec![]; let _ = r.read_to_end(&mut sink); })); });
	m("over-api", &mut || { let _ = run_reader(OverReader { data: &input, pos: 0, calls: 0, at: 0, excess: 1, chunk: 0 }, Some(F::Yaml), F::Json); });
	m("over-api-detect", &mut || { let _ = run_reader(OverReader { data: &input, pos: 0, calls: 0, at: 0, excess: 1, chunk: 0 }, None, F::Json); });
}

/// `xtmc c17-one <file>`: exercise one input twice and report a repeated leak via the exit status.
pub fn one(path: &str) -> i32 {
	let input = std::fs::read(path).expect("input file");
	let mut t = Tally::default();
	exercise(&input, 1, &mut t);
	let b = crate::alloc::live();
	let mut t2 = Tally::default();
	exercise(&input, 1, &mut t2);
	let _ = crate::run::take_panic();
	drop(t2);
	let a = crate::alloc::live();
	if a.0 > b.0 {
		eprintln!("leak: {} bytes per pass", a.0 - b.0);
		return 1;
	}
	0
}
