//! C03 — multi-document and multi-input output is the ordered concatenation.
//! (H) all histories of translate calls on one Translator over an input alphabet, plus
//! (I) N-document streams and document boundaries at every offset around buffer sizes.

use std::cell::RefCell;

use serde_json::{json, Value};

use super::common::*;
use crate::env::{explore, SchedReader};
use crate::model::V;
use crate::report::{CheckOutput, Ctx, Tally};
use crate::run::{fname, guarded, ChunkReader, SharedBuf, F};
use crate::spell::{spell_doc, spell_stream, Style};
use crate::util::{fnv, hex, par_fold, show, unhex};

#[derive(Clone)]
pub struct Inp {
	/// per streaming target: the stand-alone translation of each document (filled once, see `with_refs`)
	pub refs: Vec<Option<Vec<Vec<u8>>>>,
	pub src: F,
	pub bytes: Vec<u8>,
	pub docs: Vec<V>,
	/// the input is malformed after `docs` (a failing input)
	pub fails: bool,
	pub reader: bool,
	pub detect: bool,
	pub label: String,
}

fn big_map(n: usize) -> V {
	V::Map((0..n).map(|i| (V::Str(format!("key{i:04}")), V::Str(format!("value-{i}-{}", "x".repeat(i % 13))))).collect())
}

fn doc_lists() -> Vec<(Vec<V>, &'static str)> {
	let m = V::map(vec![("a", V::Int(1)), ("b", V::Arr(vec![V::Bool(true), V::s("x")]))]);
	vec![
		(vec![], "0docs"),
		(vec![V::Int(7)], "scalar"),
		(vec![V::Arr(vec![])], "empty-array"),
		(vec![m.clone()], "map"),
		(vec![m.clone(), V::s("s")], "map+scalar"),
		(vec![V::Arr(vec![V::Int(1)]), V::Map(vec![]), V::Null, m.clone()], "4docs"),
		(vec![big_map(300)], "big"),
		(vec![V::Arr(vec![V::Int(1), V::Int(2)]), big_map(300), V::Bool(false)], "mixed-big"),
	]
}

pub fn alphabet(thorough: bool) -> Vec<Inp> {
	let mut a = vec![];
	for src in F::STREAMING {
		for (docs, label) in doc_lists() {
			let seps: &[u32] = if thorough { &[0, 1, 2, 3] } else if src == F::Yaml { &[0, 3] } else { &[0, 1] };
			for &sep in seps {
				if src == F::Msgpack && sep > 0 {
					continue;
				}
				let Some(bytes) = spell_stream(src, &docs, Style(0), sep) else { continue };
				// detection needs a collection-rooted first document for YAML / MessagePack
				let detectable = docs.first().is_some_and(V::is_collection) && crate::run::detect_slice(&bytes) == Ok(Some(src));
				for reader in [false, true] {
					for detect in [false, true] {
						if detect && !detectable {
							continue;
						}
						if !thorough && detect && reader && sep != seps[0] {
							continue;
						}
						a.push(Inp { refs: vec![], src, bytes: bytes.clone(), docs: docs.clone(), fails: false, reader, detect, label: format!("{}:{label}:sep{sep}", src.name()) });
					}
				}
			}
		}
	}
	// TOML sources: one document each
	for (docs, label) in [(vec![V::map(vec![("a", V::Int(1))])], "map"), (vec![V::map(vec![("t", V::map(vec![("x", V::s("y"))]))])], "nested")] {
		let bytes = spell_stream(F::Toml, &docs, Style(0), 0).unwrap();
		for reader in [false, true] {
			a.push(Inp { refs: vec![], src: F::Toml, bytes: bytes.clone(), docs: docs.clone(), fails: false, reader, detect: false, label: format!("toml:{label}") });
		}
	}
	// failing inputs: some complete documents, then a syntax error
	let m = V::map(vec![("ok", V::Int(1))]);
	for (src, tail) in [(F::Json, &b"\n{\"a\": tru}"[..]), (F::Yaml, b"---\na: [1, 2\n"), (F::Msgpack, b"\x92\x01")] {
		let mut bytes = spell_stream(src, &[m.clone(), V::Int(2)], Style(0), 0).unwrap();
		bytes.extend_from_slice(tail);
		for reader in [false, true] {
			a.push(Inp { refs: vec![], src, bytes: bytes.clone(), docs: vec![m.clone(), V::Int(2)], fails: true, reader, detect: false, label: format!("{}:failing", src.name()) });
		}
	}
	a
}

/// Reference: the translation of each document taken alone, by a fresh translator.
fn reference_for(docs: &[V], to: F) -> Option<Vec<Vec<u8>>> {
	let mut out = vec![];
	for d in docs {
		// spelled as MessagePack: the reference only depends on the value
		let b = spell_doc(F::Msgpack, d, Style(0))?;
		let o = crate::run::run_slice(&b, Some(F::Msgpack), to);
		if !o.ok {
			return None;
		}
		out.push(o.out);
	}
	Some(out)
}

fn with_refs(mut a: Vec<Inp>) -> Vec<Inp> {
	for inp in &mut a {
		inp.refs = F::STREAMING.iter().map(|&to| reference_for(&inp.docs, to)).collect();
	}
	a
}

fn cached_refs<'a>(inp: &'a Inp, to: F) -> Option<std::borrow::Cow<'a, Vec<Vec<u8>>>> {
	if inp.refs.len() == F::STREAMING.len() {
		let i = F::STREAMING.iter().position(|&t| t == to)?;
		return inp.refs[i].as_ref().map(std::borrow::Cow::Borrowed);
	}
	reference_for(&inp.docs, to).map(std::borrow::Cow::Owned)
}

fn run_history(hist: &[&Inp], to: F) -> (Vec<Result<(), String>>, Vec<u8>, Option<String>) {
	let buf = RefCell::new(Vec::new());
	let mut results = vec![];
	let mut tr = xt::Translator::new(SharedBuf(&buf), to.xt());
	let mut panic = None;
	for inp in hist {
		let from = if inp.detect { None } else { Some(inp.src.xt()) };
		let scratch = RefCell::new(Vec::new());
		let o = guarded(&scratch, || {
			if inp.reader {
				tr.translate_reader(ChunkReader::new(&inp.bytes, 5), from)
			} else {
				tr.translate_slice(&inp.bytes, from)
			}
		});
		if let Some(p) = o.panic {
			panic = Some(p);
			break;
		}
		results.push(if o.ok { Ok(()) } else { Err(o.err) });
		if !o.ok {
			break;
		}
	}
	drop(tr);
	(results, buf.into_inner(), panic)
}

fn hist_case(hist: &[&Inp], to: F) -> Value {
	json!({"kind": "history", "to": to.name(), "calls": hist.iter().map(|i| json!({
		"src": i.src.name(), "bytes_hex": hex(&i.bytes), "text": show(&i.bytes), "reader": i.reader, "detect": i.detect,
		"fails": i.fails, "docs": i.docs.iter().map(V::dump).collect::<Vec<_>>(), "label": i.label,
	})).collect::<Vec<_>>()})
}

fn judge_history(hist: &[&Inp], to: F) -> Option<(String, String)> {
	let (results, out, panic) = run_history(hist, to);
	if let Some(p) = panic {
		return Some(("history-panic".into(), format!("panic: {p}")));
	}
	let mut expected: Vec<u8> = vec![];
	let mut expected_docs: Vec<V> = vec![];
	for (i, inp) in hist.iter().enumerate() {
		let Some(r) = results.get(i) else { break };
		let Some(refs) = cached_refs(inp, to) else { return None };
		for (d, b) in inp.docs.iter().zip(refs.iter()) {
			expected.extend_from_slice(b);
			expected_docs.push(d.clone());
		}
		match (r, inp.fails) {
			(Ok(()), false) => {}
			(Err(_), true) => break,
			(Ok(()), true) => return Some(("failing-input-accepted".into(), format!("call {i} ({}) returned Ok", inp.label))),
			(Err(e), false) => {
				// C02's known class: a YAML stream without any document fails from a slice
				if inp.src == F::Yaml && !inp.reader && inp.docs.is_empty() && crate::yamlread::document_count(&inp.bytes) == Some(0) && e.contains("invalid type: Option value") {
					return Some(("yaml-slice-void-document".into(), format!("call {i} ({}) failed: {e}", inp.label)));
				}
				return Some(("valid-input-refused".into(), format!("call {i} ({}) failed: {e}", inp.label)));
			}
		}
	}
	let failed = results.last().is_some_and(Result::is_err);
	if failed {
		// output so far: the completed documents, possibly followed by a partial one
		if !out.starts_with(&expected) {
			return Some(("concatenation-differs-before-failure".into(), format!("output {} does not start with the concatenation {}", show(&out), show(&expected))));
		}
		return None;
	}
	if out != expected {
		return Some(("concatenation-differs".into(), format!("output {} != concatenation of single-document translations {}", show(&out), show(&expected))));
	}
	// framing: an independent reader of the target recovers exactly the N documents (for three-call
	// histories only when the output is small; concatenation equality above is always checked)
	if hist.len() >= 3 && out.len() > 2000 {
		return None;
	}
	match read_output_values(to, &out) {
		Err(e) => Some(("framing-unreadable".into(), format!("output {} unreadable: {e}", show(&out)))),
		Ok(vals) => {
			let got: Vec<String> = vals.iter().map(V::dump).collect();
			let want: Vec<String> = expected_docs.iter().map(V::dump).collect();
			if got != want {
				Some(("framing-differs".into(), format!("reader recovers {} documents, expected {}: {:?} vs {:?}", got.len(), want.len(), &got[..got.len().min(4)], &want[..want.len().min(4)])))
			} else {
				None
			}
		}
	}
}

// ------------------------------------------------------------------------------------------ (I)

fn padded_doc(total_len_target: usize, src: F) -> V {
	// a one-entry map whose spelling has (about) the requested length; exact length is tuned by the caller
	let base = spell_doc(src, &V::map(vec![("p", V::s(""))]), Style(0)).unwrap().len();
	V::map(vec![("p", V::Str("z".repeat(total_len_target.saturating_sub(base))))])
}

fn stream_case(bytes: &[u8], src: F, to: F, docs: &[V], mode: &str, chunk: usize, choices: &[u16], detect: bool) -> Value {
	json!({"kind": "stream", "src": src.name(), "to": to.name(), "bytes_hex": if bytes.len() < 4000 { hex(bytes) } else { String::new() },
		"len": bytes.len(), "docs": docs.iter().map(|d| { let s = d.dump(); s[..s.len().min(60)].to_string() }).collect::<Vec<_>>(),
		"mode": mode, "policy_chunk": chunk, "choices": choices, "detect": detect})
}

fn judge_stream(t: &mut Tally, bytes: &[u8], src: F, docs: &[V], to: F, d: usize, label: &str) {
	let Some(refs) = reference_for(docs, to) else {
		// every document of these streams is in the common model and every target here is a
		// streaming one: a document that does not translate on its own is already wrong
		t.bad(format!("single-document-refused:{}", to.name()), stream_case(bytes, src, to, docs, "reference", 0, &[], false), format!("{label}: one of the documents, translated alone (MessagePack spelling, slice) to {}, is refused", to.name()));
		return;
	};
	let expected: Vec<u8> = refs.concat();
	let want: Vec<String> = docs.iter().map(V::dump).collect();
	let detectable = docs.first().is_some_and(V::is_collection) && crate::run::detect_slice(bytes) == Ok(Some(src));
	let froms: &[Option<F>] = if detectable { &[Some(src), None] } else { &[Some(src)] };
	for &from in froms {
		let mut check = |t: &mut Tally, o: &crate::run::Outcome, mode: &str, chunk: usize, choices: &[u16]| {
			t.evaluations += 1;
			let bad = if !o.ok {
				if src == F::Yaml && docs.is_empty() && mode == "slice" && o.err.contains("invalid type: Option value") {
					Some(("yaml-slice-void-document", format!("failed: {}", o.brief())))
				} else {
					Some(("stream-refused", format!("failed: {}", o.brief())))
				}
			} else if o.out != expected {
				Some(("stream-concatenation-differs", format!("output differs from the concatenation of single-document translations (got {} bytes, want {})", o.out.len(), expected.len())))
			} else {
				None
			};
			if let Some((class, msg)) = bad {
				let cname = if class.starts_with("yaml-slice-void") { class.to_string() } else { format!("{class}:{}->{}", src.name(), to.name()) };
				t.bad(cname, stream_case(bytes, src, to, docs, mode, chunk, choices, from.is_none()),
					format!("{label} from={} to={} {mode} chunk={chunk} choices={choices:?}: {msg}", fname(from), to.name()));
			}
		};
		let s = crate::run::run_slice(bytes, from, to);
		check(t, &s, "slice", 0, &[]);
		if s.ok {
			match read_output_values(to, &s.out) {
				Ok(vals) if vals.iter().map(V::dump).collect::<Vec<_>>() == want => {}
				other => t.bad(format!("stream-framing:{}->{}", src.name(), to.name()), stream_case(bytes, src, to, docs, "slice", 0, &[], from.is_none()),
					format!("{label}: independent reader recovers {:?} documents, expected {}", other.map(|v| v.len()), want.len())),
			}
		}
		let marks = std::rc::Rc::new({
			// document boundaries of the *input* are the interesting cut points
			let mut m = vec![];
			let mut acc = 0usize;
			for dd in docs {
				acc += spell_doc(src, dd, Style(0)).map_or(0, |b| b.len());
				m.push(acc);
			}
			m.extend([8192usize, 16384, 24576]);
			m.sort_unstable();
			m
		});
		let big = bytes.len() > 100_000;
		for chunk in [0usize, 4096] {
			let pol = policy(chunk, !big, false, &marks);
			let st = explore(if big { 0 } else { d }, 400, |env| {
				let o = crate::run::run_reader(SchedReader::new(bytes, env, pol.clone()), from, to);
				let choices = env.borrow().choices();
				check(t, &o, "reader", chunk, &choices);
			});
			t.states += st.runs;
			t.transitions += st.points;
			t.traces += st.runs;
			if st.capped {
				t.capped += 1;
			}
		}
		// a reader that fails exactly at a document boundary (or mid-document): whatever the verdict, no
		// document may be silently dropped: Ok means the whole concatenation, Err means a prefix of it
		if bytes.len() <= 40_000 {
			let mut cuts: Vec<usize> = marks.iter().copied().filter(|&m| m <= bytes.len()).collect();
			cuts.extend(marks.iter().filter(|&&m| m >= 2 && m <= bytes.len()).map(|m| m - 2));
			cuts.sort_unstable();
			cuts.dedup();
			if cuts.len() > 24 {
				let step = cuts.len() / 12;
				cuts = cuts.iter().copied().take(8).chain(cuts.iter().copied().step_by(step)).chain(cuts.iter().copied().rev().take(4)).collect();
			}
			for k in cuts {
				for kind in [std::io::ErrorKind::Other, std::io::ErrorKind::Interrupted] {
					let o = crate::run::run_reader(crate::env::FailAtReader::new(bytes, k, 0).with_kind(kind), from, to);
					t.evaluations += 1;
					t.count("streams:reader-fault-at-boundary");
					let good = if o.panic.is_some() { false } else if o.ok { o.out == expected } else { expected.starts_with(&o.out) || o.out.starts_with(&expected) };
					if !good {
						t.bad(format!("documents-dropped-under-reader-fault:{}->{}", src.name(), to.name()), stream_case(bytes, src, to, docs, "reader-fault", k, &[], from.is_none()),
							format!("{label} from={} to={}: reader fails ({kind:?}) after {k} bytes: {} but the full concatenation has {} bytes", fname(from), to.name(), o.brief(), expected.len()));
					}
				}
			}
		}
		t.nontrivial(fnv(&[bytes, fname(from).as_bytes(), to.name().as_bytes()]));
	}
}

/// One command-line invocation over several input files in different formats: stdout must be the
/// concatenation of the single-file translations.
fn cli_part(thorough: bool) -> Tally {
	use crate::proc::{self, Exit, Spawn, WorkDir};
	proc::assert_bins();
	let w = WorkDir::new("c03");
	let m = V::map(vec![("a", V::Int(1)), ("b", V::Arr(vec![V::Bool(true), V::s("x")]))]);
	let files: Vec<(&str, F, Vec<V>)> = vec![
		("one.json", F::Json, vec![m.clone()]),
		("multi.json", F::Json, vec![V::Arr(vec![V::Int(1)]), V::s("two"), m.clone()]),
		("one.yaml", F::Yaml, vec![V::map(vec![("y", V::Int(2))])]),
		("multi.yml", F::Yaml, vec![V::Arr(vec![V::s("p")]), V::Int(3)]),
		("one.msgpack", F::Msgpack, vec![V::map(vec![("m", V::Null)])]),
		("multi.msgpack", F::Msgpack, vec![V::Arr(vec![]), V::Bool(false)]),
		("one.toml", F::Toml, vec![V::map(vec![("t", V::map(vec![("k", V::s("v"))]))])]),
		("noext-json", F::Json, vec![V::Arr(vec![V::Int(9)])]),
		("big.json", F::Json, vec![V::map(vec![("i", V::Int(1))]), V::map(vec![("p", V::Str("q".repeat(14_000)))])]),
	];
	// operands that fail: everything translated from the operands before them must be on stdout
	w.write("bad.json", b"}{ nope\n");
	w.write("undetectable", b"\x00\x01 @@@ {{{\n");
	let failing = ["bad.json", "missing.yaml", "undetectable"];
	for (name, f, docs) in &files {
		w.write(name, &spell_stream(*f, docs, Style(0), 0).unwrap());
	}
	let mut lists: Vec<Vec<usize>> = vec![];
	for i in 0..files.len() {
		lists.push(vec![i]);
		for j in 0..files.len() {
			lists.push(vec![i, j]);
			for k in 0..files.len() {
				if thorough || (i + j + k) % 3 == 0 {
					lists.push(vec![i, j, k]);
				}
			}
		}
	}
	let dir = w.path().to_path_buf();
	// lists of 1-2 good operands, a failing one, and possibly one more good operand
	let mut flists: Vec<(Vec<usize>, usize, bool)> = vec![];
	for i in 0..files.len() {
		for (b, _) in failing.iter().enumerate() {
			flists.push((vec![i], b, false));
			flists.push((vec![i], b, true));
			for j in 0..files.len() {
				if thorough || (i + j) % 2 == 0 {
					flists.push((vec![i, j], b, false));
				}
			}
		}
	}
	let tf = par_fold(&flists, Tally::default, |t, idx, (list, b, trailing)| {
		for to in F::STREAMING {
			let mut args: Vec<String> = vec![format!("-t{}", to.letter())];
			args.extend(list.iter().map(|&i| files[i].0.to_string()));
			args.push(failing[*b].to_string());
			if *trailing {
				args.push(files[0].0.to_string());
			}
			let argv: Vec<&str> = args.iter().map(String::as_str).collect();
			let mut sp = Spawn::new(&dir, &argv);
			sp.release = idx % 2 == 0;
			let o = proc::run(&sp);
			t.evaluations += 1;
			t.count("cli:file-lists-with-a-failing-operand");
			let mut expected = vec![];
			let mut ok = true;
			for &i in list {
				match reference_for(&files[i].2, to) {
					Some(refs) => expected.extend(refs.concat()),
					None => ok = false,
				}
			}
			if !ok {
				continue;
			}
			if o.exit != Exit::Code(1) || o.stdout != expected {
				t.bad(format!("cli-output-before-a-failing-operand-differs:{}", to.name()), json!({"kind": "cli-list", "argv": argv}),
					format!("xt {argv:?}: {} | expected exit 1 and the concatenation for the operands before the failing one: {}", o.brief(), show(&expected)));
			}
		}
	});
	let ts = par_fold(&lists, Tally::default, |t, idx, list| {
		for to in F::STREAMING {
			let mut args: Vec<String> = vec![format!("-t{}", to.letter())];
			args.extend(list.iter().map(|&i| files[i].0.to_string()));
			let argv: Vec<&str> = args.iter().map(String::as_str).collect();
			let mut sp = Spawn::new(&dir, &argv);
			sp.release = idx % 2 == 0;
			let o = proc::run(&sp);
			t.evaluations += 1;
			t.count("cli:file-lists");
			let mut expected = vec![];
			let mut ok = true;
			for &i in list {
				match reference_for(&files[i].2, to) {
					Some(refs) => expected.extend(refs.concat()),
					None => ok = false,
				}
			}
			if !ok {
				continue;
			}
			if o.exit != Exit::Code(0) || o.stdout != expected {
				t.bad(format!("cli-concatenation-differs:{}", to.name()), json!({"kind": "cli-list", "argv": argv}),
					format!("xt {argv:?}: {} | expected concatenation {}", o.brief(), show(&expected)));
			}
		}
	});
	let mut all = Tally::merge_all(ts);
	all.merge(Tally::merge_all(tf));
	all
}

pub fn run(ctx: &Ctx) -> CheckOutput {
	let thorough = ctx.thorough();
	// ---- (H) histories
	let alpha = with_refs(alphabet(thorough));
	let depth = if thorough { 3 } else { 2 };
	let mut hists: Vec<Vec<usize>> = vec![];
	for i in 0..alpha.len() {
		hists.push(vec![i]);
		for j in 0..alpha.len() {
			hists.push(vec![i, j]);
			if depth >= 3 || (i % 7 == 0 && j % 5 == 0) {
				for k in 0..alpha.len() {
					if depth < 3 && k % 3 != 0 {
						continue;
					}
					// thorough: every third call over the inputs below 300 bytes (the large documents are
					// exercised in first and second position)
					if depth >= 3 && alpha[k].bytes.len() > 300 {
						continue;
					}
					hists.push(vec![i, j, k]);
				}
			}
		}
	}
	let th = par_fold(&hists, Tally::default, |t, idx, h| {
		let hist: Vec<&Inp> = h.iter().map(|&i| &alpha[i]).collect();
		for to in F::STREAMING {
			t.evaluations += 1;
			t.transitions += hist.len() as u64;
			t.traces += 1;
			if let Some((class, msg)) = judge_history(&hist, to) {
				let cname = if class.starts_with("yaml-slice-void") { class.clone() } else { format!("{class}:{}", to.name()) };
				t.bad(cname, hist_case(&hist, to), format!("history [{}] to={}: {msg}", hist.iter().map(|i| format!("{}{}{}", i.label, if i.reader { "/reader" } else { "/slice" }, if i.detect { "/detect" } else { "" })).collect::<Vec<_>>().join(", "), to.name()));
			}
			t.nontrivial(fnv(&[&idx.to_le_bytes(), to.name().as_bytes()]));
		}
		t.count(&format!("histories:len{}", hist.len()));
		if idx % 4001 == 0 {
			t.sample(4, || json!({"history": hist.iter().map(|i| i.label.clone()).collect::<Vec<_>>()}));
		}
	});
	// ---- (I) N-document streams and boundary placement
	let mut jobs: Vec<(F, Vec<V>, String)> = vec![];
	let ns: Vec<usize> = if thorough { (0..=12).chain([63, 64, 65, 255, 256, 257, 1000]).collect() } else { vec![0, 1, 2, 3, 5, 12, 64, 256, 1000] };
	for src in F::STREAMING {
		for &n in &ns {
			let docs: Vec<V> = (0..n).map(|i| match i % 4 { 0 => V::map(vec![("i", V::Int(i as i128))]), 1 => V::Arr(vec![V::Int(i as i128)]), 2 => V::Int(i as i128), _ => V::s("s") }).collect();
			jobs.push((src, docs, format!("{}:N={n}", src.name())));
		}
		// a large document between two small ones (length headers of every width)
		for big in [40_000usize, 70_000] {
			if !thorough && big != 40_000 {
				continue;
			}
			let docs = vec![V::map(vec![("a", V::Int(1))]), V::Map((0..big).map(|i| (V::Str(format!("k{i}")), V::Int((i % 3) as i128))).collect()), V::Arr(vec![V::Int(1), V::Int(2)])];
			jobs.push((src, docs, format!("{}:big-map-{big}", src.name())));
		}
		let offs: Vec<usize> = if thorough { (8188..=8196).chain(16380..=16388).chain(24572..=24580).collect() } else { vec![8190, 8191, 8192, 8193, 16383, 16384, 16385, 24576] };
		for off in offs {
			// first document ends exactly at `off` (tuned), then two more documents
			let mut first = padded_doc(off, src);
			for _ in 0..4 {
				let len = spell_doc(src, &first, Style(0)).unwrap().len();
				if len == off {
					break;
				}
				if let V::Map(m) = &mut first {
					if let V::Str(s) = &mut m[0].1 {
						if len < off { s.push_str(&"z".repeat(off - len)); } else { s.truncate(s.len().saturating_sub(len - off)); }
					}
				}
			}
			jobs.push((src, vec![first, V::map(vec![("second", V::Int(2))]), V::Arr(vec![V::s("third")])], format!("{}:boundary@{off}", src.name())));
		}
	}
	let d = if thorough { 2 } else { 1 };
	let ti = par_fold(&jobs, Tally::default, |t, _, (src, docs, label)| {
		let seps: &[u32] = if *src == F::Msgpack { &[0] } else { &[0, 1, 3] };
		for &sep in seps {
			let Some(bytes) = spell_stream(*src, docs, Style(0), sep) else { continue };
			for to in F::STREAMING {
				judge_stream(t, &bytes, *src, docs, to, d, &format!("{label}:sep{sep}"));
			}
			t.count("streams");
		}
	});
	// ---- (I') exact-size layouts: leading comment block / first document of every ladder size
	let mut layouts = crate::gen::yaml_layouts(thorough);
	layouts.extend(crate::gen::sized_streams(F::Json, thorough));
	layouts.extend(crate::gen::sized_streams(F::Msgpack, thorough));
	let tl = par_fold(&layouts, Tally::default, |t, _, l| {
		let src = if l.label.starts_with("yaml") { F::Yaml } else if l.label.starts_with("json") { F::Json } else { F::Msgpack };
		for to in F::STREAMING {
			judge_stream(t, &l.bytes, src, &l.docs, to, 0, &l.label);
		}
		t.count("streams:size-ladder");
	});
	let mut tally = Tally::merge_all(th);
	tally.merge(Tally::merge_all(ti));
	tally.merge(Tally::merge_all(tl));
	tally.merge(cli_part(thorough));
	tally.states += hists.len() as u64;
	let req = |k: &str| (k.to_string(), *tally.counters.get(k).unwrap_or(&0));
	let required = vec![req("histories:len1"), req("histories:len2"), req("histories:len3"), req("streams"), req("streams:size-ladder"), req("cli:file-lists"), req("cli:file-lists-with-a-failing-operand")];
	CheckOutput {
		level: "model_checking",
		tally,
		rule: format!("(H) input alphabet of {} inputs (JSON/YAML/MessagePack streams of 0,1,2,3,4 documents incl. an 8 KiB-class map, several separator styles, slice/reader, named/detected; TOML single documents; one failing input per format); all histories of 1 and 2 calls{} on ONE Translator per streaming target; oracle: output == concatenation of the translations of each document alone by a fresh translator (prefix of it when a call fails), and the harness's own reader of the target recovers exactly those N documents. (I) N-document streams (N up to 1000) and streams whose first document ends at every offset around 8192/16384/24576, x separators x 3 targets x explicit/detected, slice and reader under two default policies and all schedules with <= {} deviation(s) cut at document boundaries +-1. (I') three-document streams in which a leading YAML comment block or the first document (YAML explicit / implicit / implicit and indented, three ways of ending a document; JSON; MessagePack) has every exact size 2^k-1, 2^k, 2^k+1 around the 4 KiB..64 KiB buffer sizes (thorough: 1 KiB..256 KiB and further multiples of 8 KiB). (CLI) every list of 1-3 files over 9 files of mixed formats (single and multi-document, extension-less, one with a 14 KB document) through the real binary: stdout == concatenation of the per-document translations; and lists of 1-2 of them followed by a failing operand (syntax error, missing file, undetectable) and possibly one more file: exit 1 and stdout == the concatenation for the operands before the failing one.", alpha.len(), if thorough { " and all of 3 calls whose third input is below 300 bytes" } else { " and a fixed third of the 3-call histories" }, d),
		exhaustive: thorough,
		bounds: json!({"history_depth": if thorough { 3 } else { 2 }, "alphabet": alpha.len(), "deviations": d}),
		assumptions: vec!["the reference for a document is xt's own translation of that document alone (the structure run sequentially); absolute fidelity is C01's job".into()],
		required,
		extra: Default::default(),
	}
}

pub fn replay(case: &Value) -> Option<String> {
	match case["kind"].as_str().unwrap_or("") {
		"history" => {
			let to = F::parse(case["to"].as_str().unwrap()).unwrap();
			let inps: Vec<Inp> = case["calls"].as_array().unwrap().iter().map(|c| Inp {
				refs: vec![],
				src: F::parse(c["src"].as_str().unwrap()).unwrap(),
				bytes: unhex(c["bytes_hex"].as_str().unwrap()),
				docs: c["docs"].as_array().unwrap().iter().map(|d| crate::model::parse_dump(d.as_str().unwrap()).unwrap()).collect(),
				fails: c["fails"].as_bool().unwrap(),
				reader: c["reader"].as_bool().unwrap(),
				detect: c["detect"].as_bool().unwrap(),
				label: c["label"].as_str().unwrap().to_string(),
			}).collect();
			let hist: Vec<&Inp> = inps.iter().collect();
			judge_history(&hist, to).map(|x| x.1)
		}
		_ => Some("stream cases are replayed by re-running the check (inputs are regenerated from the label)".into()),
	}
}
