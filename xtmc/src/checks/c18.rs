//! C18 — nesting limits are clean, and the same for slice and reader input.

use serde_json::{json, Value};

use super::common::*;
use crate::model::MpReader;
use crate::proc::{self, Exit, Spawn, Stdin, WorkDir};
use crate::report::{CheckOutput, Ctx, Tally};
use crate::run::{detect_slice, fname, F};
use crate::util::{fnv, par_fold};

/// One nesting step.
#[derive(Clone, Copy, Debug, PartialEq, Eq, Hash)]
pub enum Step {
	Arr,
	MapVal,
	MapKey,
}

#[derive(Clone, Copy, Debug, PartialEq, Eq, Hash)]
pub enum Leaf {
	Scalar,
	EmptyArr,
	EmptyMap,
}

/// Builds a document with `depth` collections in total (an empty innermost collection counts).
pub fn nested(f: F, word: &[Step], leaf: Leaf, depth: usize, yaml_block: bool) -> Option<Vec<u8>> {
	nested_w(f, word, leaf, depth, yaml_block, 0)
}

/// `width`: MessagePack header width used for the nesting collections (0 = fix, 1 = 16-bit, 2 = 32-bit);
/// 3 (all formats) = every nesting collection except the innermost one also holds an EMPTY collection as an
/// earlier sibling of the nested child (`[[], [[], [1]]]`): the document is exactly as deep as without them.
pub fn nested_w(f: F, word: &[Step], leaf: Leaf, depth: usize, yaml_block: bool, width: u8) -> Option<Vec<u8>> {
	let wraps = if leaf == Leaf::Scalar { depth } else { depth.checked_sub(1)? };
	let step = |i: usize| word[i % word.len()];
	let sib = |i: usize| width == 3 && i + 1 < wraps;
	if width == 3 && f == F::Yaml && yaml_block {
		return None;
	}
	let mut out: Vec<u8> = vec![];
	match f {
		F::Json | F::Yaml if !(f == F::Yaml && yaml_block) => {
			for i in 0..wraps {
				match step(i) {
					Step::Arr => out.extend_from_slice(if sib(i) { b"[[]," } else { b"[" }),
					Step::MapVal => out.extend_from_slice(match (f == F::Json, sib(i)) {
						(true, false) => &b"{\"k\":"[..],
						(true, true) => b"{\"e\":{},\"k\":",
						(false, false) => b"{k: ",
						(false, true) => b"{e: {}, k: ",
					}),
					Step::MapKey => {
						if f == F::Json {
							return None;
						}
						out.extend_from_slice(b"{? ");
					}
				}
			}
			out.extend_from_slice(match leaf {
				Leaf::Scalar => b"1",
				Leaf::EmptyArr => b"[]",
				Leaf::EmptyMap => b"{}",
			});
			for i in (0..wraps).rev() {
				match step(i) {
					Step::Arr => out.push(b']'),
					Step::MapVal => out.push(b'}'),
					Step::MapKey => out.extend_from_slice(b" : 1}"),
				}
			}
			out.push(b'\n');
		}
		F::Yaml => {
			// block style: "- - - 1" for arrays, "k:\n  k:\n" for maps
			if word.iter().any(|s| *s == Step::MapKey) {
				return None;
			}
			let mut indent = 0;
			let mut at_line_start = true;
			for i in 0..wraps {
				match step(i) {
					Step::Arr => {
						if at_line_start {
							out.extend(std::iter::repeat(b' ').take(indent));
						}
						out.extend_from_slice(b"- ");
						indent += 2;
						at_line_start = false;
					}
					Step::MapVal => {
						if at_line_start {
							out.extend(std::iter::repeat(b' ').take(indent));
						}
						out.extend_from_slice(b"k:\n");
						indent += 2;
						at_line_start = true;
					}
					Step::MapKey => unreachable!(),
				}
			}
			if at_line_start {
				out.extend(std::iter::repeat(b' ').take(indent));
			}
			out.extend_from_slice(match leaf {
				Leaf::Scalar => b"1\n",
				Leaf::EmptyArr => b"[]\n",
				Leaf::EmptyMap => b"{}\n",
			});
		}
		F::Msgpack => {
			for i in 0..wraps {
				if sib(i) && step(i) != Step::MapKey {
					match step(i) {
						Step::Arr => out.extend_from_slice(&[0x92, 0x90]),
						_ => out.extend_from_slice(&[0x82, 0xa1, b'e', 0x80, 0xa1, b'k']),
					}
					continue;
				}
				let (arr, map): (&[u8], &[u8]) = match width {
					0 | 3 => (&[0x91], &[0x81]),
					1 => (&[0xdc, 0, 1], &[0xde, 0, 1]),
					_ => (&[0xdd, 0, 0, 0, 1], &[0xdf, 0, 0, 0, 1]),
				};
				match step(i) {
					Step::Arr => out.extend_from_slice(arr),
					Step::MapVal => {
						out.extend_from_slice(map);
						out.extend_from_slice(&[0xa1, b'k']);
					}
					Step::MapKey => out.extend_from_slice(map),
				}
			}
			out.push(match leaf {
				Leaf::Scalar => 0x01,
				Leaf::EmptyArr => 0x90,
				Leaf::EmptyMap => 0x80,
			});
			for i in (0..wraps).rev() {
				if step(i) == Step::MapKey {
					out.push(0x01);
				}
			}
		}
		F::Toml => {
			// root table is one collection already: "a = " then inline nesting
			if word.iter().any(|s| *s == Step::MapKey) || depth == 0 {
				return None;
			}
			out.extend_from_slice(b"a = ");
			let inner = if leaf == Leaf::Scalar { depth - 1 } else { depth.checked_sub(2)? };
			for i in 0..inner {
				let s = width == 3 && i + 1 < inner;
				match step(i) {
					Step::Arr => out.extend_from_slice(if s { b"[[]," } else { b"[" }),
					_ => out.extend_from_slice(if s { b"{e = {}, k = " } else { b"{k = " }),
				}
			}
			out.extend_from_slice(match leaf {
				Leaf::Scalar => b"1",
				Leaf::EmptyArr => b"[]",
				Leaf::EmptyMap => b"{}",
			});
			for i in (0..inner).rev() {
				match step(i) {
					Step::Arr => out.push(b']'),
					_ => out.push(b'}'),
				}
			}
			out.push(b'\n');
		}
		_ => unreachable!(),
	}
	Some(out)
}

fn words(max_period: usize, with_key: bool) -> Vec<Vec<Step>> {
	let alpha: Vec<Step> = if with_key { vec![Step::Arr, Step::MapVal, Step::MapKey] } else { vec![Step::Arr, Step::MapVal] };
	let mut out: Vec<Vec<Step>> = vec![];
	let mut layer: Vec<Vec<Step>> = vec![vec![]];
	for _ in 0..max_period {
		let mut next = vec![];
		for w in &layer {
			for &s in &alpha {
				let mut x = w.clone();
				x.push(s);
				next.push(x);
			}
		}
		out.extend(next.iter().cloned());
		layer = next;
	}
	// drop words that are repetitions of a shorter word
	out.retain(|w| !(1..w.len()).any(|p| w.len() % p == 0 && w.chunks(p).all(|c| c == &w[..p])));
	out
}

fn word_name(w: &[Step]) -> String {
	w.iter().map(|s| match s { Step::Arr => 'A', Step::MapVal => 'M', Step::MapKey => 'K' }).collect()
}

struct Shape {
	src: F,
	word: Vec<Step>,
	leaf: Leaf,
	block: bool,
	/// MessagePack header width of the nesting collections
	width: u8,
}

fn nominal_limit(f: F) -> usize {
	match f {
		F::Msgpack => 1024,
		F::Json | F::Yaml => 128,
		F::Toml => 80,
	}
}

pub fn run(ctx: &Ctx) -> CheckOutput {
	let thorough = ctx.thorough();
	let mut shapes = vec![];
	for src in F::ALL {
		for w in words(if thorough { 3 } else { 2 }, src == F::Msgpack || src == F::Yaml) {
			for leaf in [Leaf::Scalar, Leaf::EmptyArr, Leaf::EmptyMap] {
				shapes.push(Shape { src, word: w.clone(), leaf, block: false, width: 0 });
				if leaf != Leaf::EmptyMap && !w.contains(&Step::MapKey) {
					shapes.push(Shape { src, word: w.clone(), leaf, block: false, width: 3 });
				}
				if src == F::Msgpack && leaf == Leaf::Scalar {
					shapes.push(Shape { src, word: w.clone(), leaf, block: false, width: 1 });
					shapes.push(Shape { src, word: w.clone(), leaf, block: false, width: 2 });
				}
				if src == F::Yaml && leaf == Leaf::Scalar && !w.contains(&Step::MapKey) {
					shapes.push(Shape { src, word: w.clone(), leaf, block: true, width: 0 });
				}
			}
		}
	}
	if let Ok(f) = std::env::var("XTMC_C18_SRC") {
		shapes.retain(|s| s.src.name() == f);
	}
	// ---- in-process: window around the limit, every depth
	let ti = par_fold(&shapes, Tally::default, |t, idx, sh| {
		let lim = nominal_limit(sh.src);
		let depths: Vec<usize> = if thorough { (1..=lim + 76).collect() } else { (1..=6).chain(lim.saturating_sub(10)..=lim + 10).collect() };
		for to in F::ALL {
			let mut seen_reject: Option<usize> = None;
			let mut last_accept: Option<usize> = None;
			for &d in &depths {
				let Some(input) = nested_w(sh.src, &sh.word, sh.leaf, d, sh.block, sh.width) else { continue };
				let case = |what: &str| json!({"kind": "depth", "src": sh.src.name(), "word": word_name(&sh.word), "leaf": format!("{:?}", sh.leaf), "block": sh.block, "width": sh.width, "depth": d, "to": to.name(), "what": what});
				let head = format!("{} shape {}*{:?}{}{} depth {d} -> {}", sh.src.name(), word_name(&sh.word), sh.leaf, if sh.block { " (block)" } else { "" }, ["", " (16-bit headers)", " (32-bit headers)", " (empty sibling at every level)"][sh.width as usize], to.name());
				let s = run_mode(&input, Some(sh.src), to, Mode::Slice);
				let r = run_mode(&input, Some(sh.src), to, Mode::Reader3);
				t.evaluations += 2;
				t.nontrivial(fnv(&[&input, to.name().as_bytes()]));
				if s.panic.is_some() || r.panic.is_some() {
					t.bad("depth-panic", case("panic"), format!("{head}: slice {} | reader {}", s.verdict(), r.verdict()));
					continue;
				}
				if s.ok != r.ok {
					t.bad(format!("depth-verdict-differs-slice-reader:{}", sh.src.name()), case("mode"), format!("{head}: slice {} | reader {}", if s.ok { "Ok".into() } else { s.err.clone() }, if r.ok { "Ok".into() } else { r.err.clone() }));
				}
				// detected: when detection picks this format the verdict must be the same
				if sh.src != F::Toml || true {
					if detect_slice(&input) == Ok(Some(sh.src)) {
						let ds = run_mode(&input, None, to, Mode::Slice);
						let dr = run_mode(&input, None, to, Mode::Reader3);
						t.evaluations += 2;
						t.count("depth:detected-runs");
						if ds.ok != s.ok || dr.ok != s.ok {
							t.bad(format!("depth-verdict-differs-detected:{}", sh.src.name()), case("detect"), format!("{head}: explicit {} | detected slice {} / reader {}", s.verdict(), ds.verdict(), dr.verdict()));
						}
					}
				}
				// a TOML target refuses every document whose root is not a table, whatever its depth:
				// those depths say nothing about the nesting threshold
				let wraps = if sh.leaf == Leaf::Scalar { d } else { d - 1 };
				let root_is_map = if wraps == 0 { sh.leaf == Leaf::EmptyMap } else { sh.word[0] != Step::Arr };
				if to == F::Toml && !root_is_map {
					continue;
				}
				if s.ok {
					last_accept = Some(d);
					if let Some(rj) = seen_reject {
						t.bad(format!("depth-verdict-not-monotone:{}", sh.src.name()), case("monotone"), format!("{head}: accepted although depth {rj} was rejected"));
					}
				} else if seen_reject.is_none() {
					seen_reject = Some(d);
				}
				// MessagePack: exactly 1023 collections around a scalar, in both modes; the pre-pass agrees with an independent decoder
				if sh.src == F::Msgpack {
					let collections = d;
					let hook = xt::verif::msgpack_value_size(&input);
					let mut own = MpReader::new(&input);
					let own_ok = own.value().is_ok() && own.pos == input.len();
					match &hook {
						Ok(n) => {
							if !own_ok || *n != input.len() {
								t.bad("msgpack-size-prepass-disagrees", case("prepass"), format!("{head}: next_value_size says {n}, input has {} bytes, own decoder ok={own_ok}", input.len()));
							}
						}
						Err(e) => {
							if collections <= 1023 {
								t.bad("msgpack-size-prepass-disagrees", case("prepass"), format!("{head}: next_value_size rejects ({e}) a value of {collections} collections"));
							}
						}
					}
					if to == F::Msgpack {
						let want_ok = collections <= 1023;
						if s.ok != want_ok || r.ok != want_ok {
							t.bad("msgpack-depth-threshold", case("threshold"), format!("{head}: {collections} collections: slice ok={} reader ok={} (1023 must translate, 1024 must not)", s.ok, r.ok));
						}
					}
				}
			}
			t.count(&format!("threshold-window:{}", sh.src.name()));
			if let Some(a) = last_accept {
				t.max(&format!("deepest-accepted:{}->{}", sh.src.name(), to.name()), a as u64);
			}
		}
		if idx % 17 == 0 {
			t.sample(5, || json!({"src": sh.src.name(), "shape": word_name(&sh.word), "leaf": format!("{:?}", sh.leaf), "block_style": sh.block}));
		}
	});
	// ---- through the real binaries: around the limit and far beyond, default main-thread stack
	proc::assert_bins();
	let w = WorkDir::new("c18");
	let far: Vec<usize> = if thorough { vec![2000, 10_000, 30_000, 100_000, 1_000_000] } else { vec![3000, 10_000, 100_000, 1_000_000] };
	let mut bjobs: Vec<(usize, usize, F, bool, bool)> = vec![];
	for (si, sh) in shapes.iter().enumerate() {
		if std::env::var_os("XTMC_C18_NOBIN").is_some() {
			break;
		}
		if sh.leaf != Leaf::Scalar && !thorough && sh.word.len() > 1 {
			continue;
		}
		let lim = nominal_limit(sh.src);
		let mut depths = vec![lim - 1, lim, lim + 1];
		// cost limits of the *generator and libyaml*, not of xt: block-style maps need O(depth^2) bytes of
		// indentation, and libyaml scans deeply nested flow mappings in quadratic time (10^5 levels take
		// over a minute in the release binary), so those shapes stop at 3*10^3 / 10^4 (3*10^4 thorough)
		let yaml_maps = sh.src == F::Yaml && sh.word.iter().any(|s| *s != Step::Arr);
		depths.extend(far.iter().copied().filter(|&d| {
			if sh.src == F::Yaml && sh.block && sh.word.iter().any(|s| *s == Step::MapVal) {
				d <= 3000
			} else if yaml_maps {
				d <= if thorough { 30_000 } else { 10_000 }
			} else if sh.src == F::Yaml || sh.src == F::Toml {
				d <= if thorough { 1_000_000 } else { 100_000 }
			} else {
				true
			}
		}));
		for d in depths {
			let targets: Vec<F> = if d > 5000 || !thorough { vec![F::Json] } else { F::ALL.to_vec() };
			for to in targets {
				for release in [false, true] {
					for via_stdin in [false, true] {
						if !thorough && d > lim + 1 && via_stdin && release {
							continue;
						}
						let _ = via_stdin;
						bjobs.push((si, d, to, release, via_stdin));
					}
				}
			}
		}
	}
	let dir = w.path().to_path_buf();
	let tb = par_fold(&bjobs, Tally::default, |t, idx, &(si, d, to, release, via_stdin)| {
		let sh = &shapes[si];
		let Some(input) = nested_w(sh.src, &sh.word, sh.leaf, d, sh.block, sh.width) else { return };
		let name = format!("in-{idx}");
		let tf = format!("-t{}", to.letter());
		let ff = format!("-f{}", sh.src.letter());
		let mut sp = if via_stdin {
			let mut sp = Spawn::new(&dir, &[&tf, &ff]);
			sp.stdin = Stdin::Bytes(input.clone());
			sp
		} else {
			std::fs::write(dir.join(&name), &input).unwrap();
			Spawn::new(&dir, &[&tf, &ff, &name])
		};
		sp.release = release;
		sp.timeout = std::time::Duration::from_secs(120);
		let o = proc::run(&sp);
		let _ = std::fs::remove_file(dir.join(&name));
		t.evaluations += 1;
		t.count(if release { "binary:release" } else { "binary:debug" });
		t.count(if via_stdin { "binary:stdin(reader)" } else { "binary:file(mmap)" });
		t.nontrivial(fnv(&[&si.to_le_bytes(), &d.to_le_bytes(), to.name().as_bytes(), &[u8::from(release), u8::from(via_stdin)]]));
		let head = format!("{} binary, {} shape {}*{:?}{}{} depth {d} -> {} via {}", if release { "release" } else { "debug" }, sh.src.name(), word_name(&sh.word), sh.leaf, if sh.block { " (block)" } else { "" }, ["", " (16-bit headers)", " (32-bit headers)", " (empty sibling at every level)"][sh.width as usize], to.name(), if via_stdin { "stdin" } else { "file" });
		let case = json!({"kind": "binary-depth", "src": sh.src.name(), "word": word_name(&sh.word), "leaf": format!("{:?}", sh.leaf), "block": sh.block, "width": sh.width, "depth": d, "to": to.name(), "release": release, "stdin": via_stdin});
		match o.exit {
			Exit::Code(0) | Exit::Code(1) => {
				if d > nominal_limit(sh.src) + 1 && o.exit == Exit::Code(0) {
					t.bad(format!("far-beyond-limit-accepted:{}", sh.src.name()), case, format!("{head}: exit 0"));
				}
			}
			other => t.bad(format!("binary-died-on-deep-input:{}", sh.src.name()), case, format!("{head}: {other}; stderr {}", crate::util::show(&o.stderr))),
		}
	});
	let mut tally = Tally::merge_all(ti);
	tally.merge(Tally::merge_all(tb));
	let req = |k: &str| (k.to_string(), *tally.counters.get(k).unwrap_or(&0));
	let required = vec![
		req("threshold-window:json"), req("threshold-window:yaml"), req("threshold-window:toml"), req("threshold-window:msgpack"), req("depth:detected-runs"),
		req("binary:release"), req("binary:debug"), req("binary:stdin(reader)"), req("binary:file(mmap)"),
	];
	CheckOutput {
		level: "exploration",
		tally,
		rule: format!("shapes: every nesting word of period <= {} over {{array, map-in-value-position, (MessagePack, YAML) collection-in-key-position}} x innermost in {{scalar, empty array, empty map}}, YAML in flow and block style, MessagePack with fix / 16-bit / 32-bit collection headers, every format also with an empty collection as an earlier sibling of the nested child at every level; in-process, {} around each format's limit (MessagePack 1024, JSON 128, YAML 128, TOML 80): for all 4 targets the verdict must be monotone in depth, equal for slice and reader, equal with detection (when detected as that format); MessagePack: exactly 1023 collections around a scalar translate and 1024 do not, in both modes, and the slice pre-pass (hook msgpack_value_size) agrees with the harness's own decoder. Through the debug and release binaries on their default main-thread stack, file (mmap) and stdin (reader): limit-1, limit, limit+1 and far depths {:?}: exit status 0 or 1 only, never a signal, and no acceptance far beyond the limit.", if thorough { 3 } else { 2 }, if thorough { "every depth from 1 to limit+76" } else { "every depth in 1..6 and limit-10..limit+10" }, far),
		exhaustive: true,
		bounds: json!({"word_period": if thorough { 3 } else { 2 }, "far_depths": far}),
		assumptions: vec!["depth counts collections (an empty innermost collection counts, a scalar does not); 'random' shapes are represented by all periodic words up to the period bound".into()],
		required,
		extra: Default::default(),
	}
}

pub fn replay(case: &Value) -> Option<String> {
	let src = F::parse(case["src"].as_str().unwrap()).unwrap();
	let to = F::parse(case["to"].as_str().unwrap()).unwrap();
	let word: Vec<Step> = case["word"].as_str().unwrap().chars().map(|c| match c { 'A' => Step::Arr, 'M' => Step::MapVal, _ => Step::MapKey }).collect();
	let leaf = match case["leaf"].as_str().unwrap() {
		"Scalar" => Leaf::Scalar,
		"EmptyArr" => Leaf::EmptyArr,
		_ => Leaf::EmptyMap,
	};
	let d = case["depth"].as_u64().unwrap() as usize;
	let input = nested_w(src, &word, leaf, d, case["block"].as_bool().unwrap_or(false), case["width"].as_u64().unwrap_or(0) as u8)?;
	if case["kind"] == "binary-depth" {
		proc::assert_bins();
		let w = WorkDir::new("c18-replay");
		w.write("in", &input);
		let tf = format!("-t{}", to.letter());
		let ff = format!("-f{}", src.letter());
		let mut sp = Spawn::new(w.path(), &[&tf, &ff, "in"]);
		if case["stdin"].as_bool().unwrap_or(false) {
			sp = Spawn::new(w.path(), &[&tf, &ff]);
			sp.stdin = Stdin::Bytes(input.clone());
		}
		sp.release = case["release"].as_bool().unwrap_or(true);
		let o = proc::run(&sp);
		return match o.exit {
			Exit::Code(1) => None,
			Exit::Code(0) if d <= nominal_limit(src) + 1 => None,
			other => Some(format!("{other}")),
		};
	}
	let s = run_mode(&input, Some(src), to, Mode::Slice);
	let r = run_mode(&input, Some(src), to, Mode::Reader3);
	if s.panic.is_some() || r.panic.is_some() || s.ok != r.ok {
		return Some(format!("slice {} | reader {}", s.verdict(), r.verdict()));
	}
	if src == F::Msgpack && to == F::Msgpack && (s.ok != (d <= 1023)) {
		return Some(format!("{d} collections: ok={}", s.ok));
	}
	let _ = fname(None);
	None
}
