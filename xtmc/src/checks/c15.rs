//! C15 — output of earlier inputs survives a later failure. Fault enumeration over input lists:
//! every size class x every failure kind x the failing input at every position x targets x stdout kind.

use serde_json::{json, Value};

use super::c13::library_run;
use crate::proc::{self, Exit, Spawn, Stdin, Stdout, WorkDir};
use crate::report::{CheckOutput, Ctx, Tally};
use crate::run::F;
use crate::util::{fnv, par_fold, show};

fn json_of_size(n: usize, tag: &str) -> Vec<u8> {
	// one JSON document whose (JSON) translation is exactly n bytes including the newline
	let head = format!("{{\"{tag}\":\"");
	let tail = "\"}\n";
	let pad = n.saturating_sub(head.len() + tail.len());
	format!("{head}{}{tail}", "x".repeat(pad)).into_bytes()
}

pub struct Fixture {
	pub name: String,
	pub fails: bool,
}

pub fn build_fixtures(w: &WorkDir, thorough: bool) -> (Vec<Fixture>, Vec<Fixture>) {
	let mut good = vec![];
	let _ = thorough;
	let sizes: Vec<(usize, &str)> = vec![(12, "s12"), (8191, "s8k-1"), (8192, "s8k"), (8193, "s8k+1"), (70 * 1024, "s70k"), (1_200_000, "s1m")];
	for (n, tag) in sizes {
		let name = format!("{tag}.json");
		w.write(&name, &json_of_size(n, "k"));
		good.push(Fixture { name, fails: false });
	}
	for (name, data) in [("empty-tail-str.json", &b"{\"k\":\"\"}\n"[..]), ("empty-tail-arr.json", b"[\"x\",[]]\n[]\n"), ("empty-tail-map.yaml", b"a: 1\n---\n{}\n"), ("empty-doc.json", b"\"\"\n")] {
		w.write(name, data);
		good.push(Fixture { name: name.into(), fails: false });
	}
	// outputs that contain a line-feed byte followed by a long stretch without one (MessagePack: the
	// integer 10 / a raw newline inside a string): a line-buffering layer splits its writes there
	for (name, data) in [
		("nl-tail-1k.json", format!("[10,\"{}\"]\n", "x".repeat(1021))),
		("nl-tail-5k.json", format!("[10,\"{}\"]\n", "x".repeat(5000))),
		("nl-mid-3k.json", format!("{{\"s\":\"line one\\n{}\"}}\n", "x".repeat(3000))),
	] {
		w.write(name, data.as_bytes());
		good.push(Fixture { name: name.into(), fails: false });
	}
	w.write("small.yaml", b"y: 1\n---\n- 2\n");
	good.push(Fixture { name: "small.yaml".into(), fails: false });
	w.write("small.msgpack", b"\x81\xa1m\x01");
	good.push(Fixture { name: "small.msgpack".into(), fails: false });
	w.write("small.toml", b"t = 1\n");
	good.push(Fixture { name: "small.toml".into(), fails: false });
	let mut bad = vec![];
	let mut add = |name: &str, data: Option<&[u8]>| {
		if let Some(d) = data {
			w.write(name, d);
		}
		bad.push(Fixture { name: name.to_string(), fails: true });
	};
	add("missing.json", None);
	add("syntax0.json", Some(b"}{ nope\n"));
	let mut late = json_of_size(9000, "ok");
	late.extend_from_slice(b"{\"a\": tru}\n");
	add("syntax-late.json", Some(&late));
	let mut deep = b"{\"a\":[1,{\"b\":[".to_vec();
	deep.extend_from_slice(&b"[".repeat(20));
	deep.extend_from_slice(b"oops");
	add("syntax-deep.json", Some(&deep));
	add("undetectable", Some(b"\x00\x01 @@@ {{{\n"));
	add("nullkey.yaml", Some(b"? ~\n: 1\n"));
	add("binary.msgpack", Some(b"\x81\xa1b\xc4\x02\x00\x01"));
	add("null.json", Some(b"{\"n\":null}\n"));
	add("two.json", Some(b"{\"a\":1}\n{\"b\":2}\n"));
	add("dir", None);
	std::fs::create_dir_all(w.path().join("dir")).unwrap();
	(good, bad)
}

fn case_json(argv: &[String], out: &Stdout) -> Value {
	json!({"kind": "cli-list", "argv": argv, "stdout": format!("{out:?}")})
}

pub fn judge(dir: &std::path::Path, argv: &[String], to: F, stdin: &[u8], o: &crate::proc::ProcOut) -> Option<(String, String)> {
	let inputs: Vec<String> = argv.iter().filter(|a| !a.starts_with("-t")).cloned().collect();
	let lib = library_run(dir, &inputs, None, to, stdin);
	match (&o.exit, lib.failed_at) {
		(Exit::Code(0), None) => {
			if o.stdout != lib.bytes {
				return Some(("successful-run-lost-output".into(), format!("exit 0 but stdout has {} bytes, the library produces {}", o.stdout.len(), lib.bytes.len())));
			}
			None
		}
		(Exit::Code(1), Some(i)) => {
			if !o.stdout.starts_with(&lib.complete) {
				let common = o.stdout.iter().zip(lib.complete.iter()).take_while(|(a, b)| a == b).count();
				return Some((
					"earlier-output-lost".into(),
					format!("input #{i} fails; the {} bytes of the inputs before it must be on stdout, but stdout has {} bytes ({} in common): tail {}", lib.complete.len(), o.stdout.len(), common, show(&o.stdout[o.stdout.len().saturating_sub(40)..])),
				));
			}
			if !lib.bytes.starts_with(&o.stdout) {
				return Some(("stdout-carries-something-else".into(), format!("stdout ({} bytes) is not a prefix of the library's bytes ({})", o.stdout.len(), lib.bytes.len())));
			}
			if !o.stderr.starts_with(b"xt error") {
				return Some(("failure-without-xt-error".into(), o.brief()));
			}
			None
		}
		(e, f) => Some(("exit-status-disagrees-with-library".into(), format!("{e}, library failed_at={f:?}, stderr={}", show(&o.stderr)))),
	}
}

pub fn run(ctx: &Ctx) -> CheckOutput {
	let thorough = ctx.thorough();
	proc::assert_bins();
	let w = WorkDir::new("c15");
	let (good, bad) = build_fixtures(&w, thorough);
	// lists: 0..=2 good inputs before, the failing one, 0..=1 good after; plus all-good lists; plus '-' twice
	let mut lists: Vec<Vec<String>> = vec![];
	let g: Vec<&str> = good.iter().map(|f| f.name.as_str()).collect();
	let b: Vec<&str> = bad.iter().map(|f| f.name.as_str()).collect();
	for f in &b {
		lists.push(vec![f.to_string()]);
		for x in &g {
			lists.push(vec![x.to_string(), f.to_string()]);
			lists.push(vec![f.to_string(), x.to_string()]);
			for y in &g {
				lists.push(vec![x.to_string(), y.to_string(), f.to_string()]);
				if true {
					lists.push(vec![x.to_string(), f.to_string(), y.to_string()]);
				}
			}
		}
	}
	for x in &g {
		lists.push(vec![x.to_string()]);
		lists.push(vec![x.to_string(), "-".into(), "-".into()]);
		lists.push(vec!["-".into(), x.to_string(), "-".into()]);
		for y in &g {
			lists.push(vec![x.to_string(), y.to_string()]);
			for z in &g {
				if thorough || z == x {
					lists.push(vec![x.to_string(), y.to_string(), z.to_string()]);
				}
			}
		}
	}
	if thorough {
		// up to 6 inputs over the reduced size alphabet
		let red = ["s12.json", "s8k+1.json", "s70k.json"];
		for f in &b {
			for pos in 0..6 {
				for rot in 0..3 {
					let mut l: Vec<String> = (0..5).map(|i| red[(i + rot) % 3].to_string()).collect();
					l.insert(pos.min(l.len()), f.to_string());
					lists.push(l);
				}
			}
		}
	}
	let mut jobs: Vec<(Vec<String>, F, Stdout)> = vec![];
	for l in &lists {
		for to in F::ALL {
			for out in [Stdout::Pipe, Stdout::File] {
				let mut argv = vec![format!("-t{}", to.letter())];
				argv.extend(l.iter().cloned());
				jobs.push((argv, to, out));
			}
		}
	}
	let dir = w.path().to_path_buf();
	let stdin: &[u8] = b"{\"from\":\"stdin\"}\n";
	let tallies = par_fold(&jobs, Tally::default, |t, idx, (argv, to, out)| {
		let a: Vec<&str> = argv.iter().map(String::as_str).collect();
		let mut sp = Spawn::new(&dir, &a);
		sp.stdin = Stdin::Bytes(stdin.to_vec());
		sp.stdout = out.clone();
		sp.release = idx % 2 == 0;
		let o = proc::run(&sp);
		t.evaluations += 1;
		t.count(&format!("stdout:{out:?}"));
		t.count(&format!("inputs:{}", argv.len() - 1));
		t.nontrivial(fnv(&[argv.join("\u{1}").as_bytes(), format!("{out:?}").as_bytes()]));
		if let Some(f) = argv[1..].iter().find(|a| bad.iter().any(|b| b.name == **a)) {
			t.count(&format!("failure-kind:{f}"));
		}
		if let Some((class, msg)) = judge(&dir, argv, *to, stdin, &o) {
			t.bad(class, case_json(argv, out), format!("xt {argv:?} stdout={out:?}: {msg}"));
		}
		if idx % 4001 == 0 {
			t.sample(5, || json!({"argv": argv, "stdout": format!("{out:?}"), "exit": o.exit.to_string(), "stdout_bytes": o.stdout.len()}));
		}
	});
	let mut tally = Tally::merge_all(tallies);
	// standard output is a pipe in O_NONBLOCK mode that cannot take a single byte (a stalled consumer behind
	// ssh / a Node.js parent): nothing can be written, so the run must not end with status 0 unless there
	// was nothing to write; a failure must be reported as such
	for to in F::ALL {
		for list in [vec!["s12.json"], vec!["s12.json", "small.yaml"], vec!["s8k+1.json"], vec!["s12.json", "missing.json"], vec!["s70k.json", "s12.json"], vec!["empty-doc.json", "syntax0.json"]] {
			if to == F::Toml && list.len() > 1 && list[1] != "missing.json" && list[1] != "syntax0.json" {
				continue;
			}
			let mut argv: Vec<String> = vec![format!("-t{}", to.letter())];
			argv.extend(list.iter().map(|s| s.to_string()));
			let a: Vec<&str> = argv.iter().map(String::as_str).collect();
			let mut sp = Spawn::new(&dir, &a);
			sp.stdout = Stdout::NonBlockFull;
			let o = proc::run(&sp);
			tally.evaluations += 1;
			tally.count("stdout:NonBlockFull");
			let inputs: Vec<String> = list.iter().map(|s| s.to_string()).collect();
			let lib = library_run(&dir, &inputs, None, to, b"");
			let good = match &o.exit {
				Exit::Code(0) => lib.failed_at.is_none() && o.stdout == lib.bytes,
				Exit::Code(1) => o.stderr.starts_with(b"xt error"),
				_ => false,
			};
			if !good {
				tally.bad("output-lost-on-a-stalled-nonblocking-pipe", json!({"kind": "cli-list", "argv": argv, "stdout": "NonBlockFull"}),
					format!("xt {argv:?} with stdout a full non-blocking pipe: {} but the library produces {} bytes (failing input: {:?})", o.brief(), lib.bytes.len(), lib.failed_at));
			}
		}
	}
	let req = |k: &str| (k.to_string(), *tally.counters.get(k).unwrap_or(&0));
	let mut required = vec![req("stdout:NonBlockFull"), req("stdout:Pipe"), req("stdout:File"), req("inputs:1"), req("inputs:2"), req("inputs:3")];
	for b in &bad {
		required.push(req(&format!("failure-kind:{}", b.name)));
	}
	CheckOutput {
		level: "fault_enumeration",
		tally,
		rule: format!("inputs by output size class {{12 B, 8 KiB-1, 8 KiB, 8 KiB+1, 70 KiB{}}} plus small YAML/MessagePack/TOML files and documents whose output holds a line-feed byte followed by 1-5 KB without one; failure kinds {{missing file, syntax error at byte 0, syntax error after a complete 9 KB document, syntax error 20 levels deep, undetectable format, value the target refuses (null key, binary, null), second document (refused by TOML), directory, second use of '-'}}; all lists with 0-2 good inputs before the failing one and 0-1 after{}, all 4 targets, stdout a pipe and a regular file, through the real binary; oracle: the exit status is 1 exactly when the library fails on some input, stdout then STARTS WITH the concatenation of the library translations of all inputs before it (and is a prefix of everything the library produced); for all-good lists exit 0 and stdout equals the full concatenation. Plus stdout as a full pipe in O_NONBLOCK mode (every write fails with EAGAIN): exit 0 only with every byte written, otherwise exit 1 with an 'xt error' message.", ", 1.2 MB", if thorough { " and lists of 6 inputs over the reduced size alphabet with the failing input at every position" } else { "" }),
		exhaustive: true,
		bounds: json!({"max_inputs": if thorough { 6 } else { 3 }}),
		assumptions: vec!["the library run in-process (one Translator, same order) defines the expected bytes".into()],
		required,
		extra: Default::default(),
	}
}

pub fn replay(case: &Value) -> Option<String> {
	proc::assert_bins();
	let w = WorkDir::new("c15-replay");
	build_fixtures(&w, true);
	let argv: Vec<String> = case["argv"].as_array().unwrap().iter().map(|x| x.as_str().unwrap().to_string()).collect();
	if case["stdout"] == "NonBlockFull" {
		let argv: Vec<String> = case["argv"].as_array().unwrap().iter().map(|x| x.as_str().unwrap().to_string()).collect();
		let a: Vec<&str> = argv.iter().map(String::as_str).collect();
		let mut sp = Spawn::new(w.path(), &a);
		sp.stdout = Stdout::NonBlockFull;
		let o = proc::run(&sp);
		let to = F::parse(&argv[0][2..]).unwrap();
		let lib = library_run(w.path(), &argv[1..].to_vec(), None, to, b"");
		let good = match &o.exit {
			Exit::Code(0) => lib.failed_at.is_none() && o.stdout == lib.bytes,
			Exit::Code(1) => o.stderr.starts_with(b"xt error"),
			_ => false,
		};
		return (!good).then(|| o.brief());
	}
	let out = if case["stdout"] == "File" { Stdout::File } else { Stdout::Pipe };
	let to = F::parse(&argv[0][2..]).unwrap();
	let stdin: &[u8] = b"{\"from\":\"stdin\"}\n";
	for release in [true, false] {
		let a: Vec<&str> = argv.iter().map(String::as_str).collect();
		let mut sp = Spawn::new(w.path(), &a);
		sp.stdin = Stdin::Bytes(stdin.to_vec());
		sp.stdout = out.clone();
		sp.release = release;
		let o = proc::run(&sp);
		if let Some((_, msg)) = judge(w.path(), &argv, to, stdin, &o) {
			return Some(msg);
		}
	}
	None
}
