//! C10 — xt recognises its own output without -f.

use serde_json::{json, Value};

use super::common::*;
use crate::env::{explore, SchedReader};
use crate::model::{JsonReader, V};
use crate::report::{CheckOutput, Ctx, Tally};
use crate::run::{detect_reader, detect_slice, run_reader, run_slice, ChunkReader, F};
use crate::spell::{spell_doc, spell_stream, Style};
use crate::util::{fnv, hex, par_fold, show, unhex};
use crate::vals;

/// The documented exception for TOML output, decided independently of xt: an earlier trial
/// (JSON, then YAML) also accepts the text.
pub fn toml_exception(text: &[u8]) -> Option<&'static str> {
	let mut jr = JsonReader::new(text);
	if jr.value().is_ok() {
		return Some("starts-with-a-json-value");
	}
	if crate::yamlread::first_document_is_clean_collection(text) {
		return Some("is-a-yaml-collection-document");
	}
	None
}

pub fn streams(thorough: bool) -> Vec<(Vec<V>, &'static str)> {
	let mut out: Vec<(Vec<V>, &'static str)> = vec![];
	let n = if thorough { 5 } else { 4 };
	let trees: Vec<V> = vals::trees(n, &vals::small_scalars(), &vals::key_alphabet()).into_iter().filter(V::is_collection).collect();
	for t in &trees {
		out.push((vec![t.clone()], "tree"));
	}
	// first keys of every kind
	let mut first_keys: Vec<String> = vals::string_family();
	for cp in [0x80u32, 0xbf, 0xc0, 0xdf, 0x700, 0x7ff, 0x800, 0xffff, 0x10000] {
		if let Some(c) = char::from_u32(cp) {
			first_keys.push(format!("{c}k"));
		}
	}
	for k in &first_keys {
		out.push((vec![V::Map(vec![(V::s(k), V::Int(1))])], "first-key"));
		out.push((vec![V::Map(vec![(V::s(k), V::Map(vec![(V::s("x"), V::s(k))]))])], "first-key"));
		out.push((vec![V::Arr(vec![V::s(k)])], "first-elem"));
	}
	// a table header first, the interesting string only later in the document (so that an earlier
	// detection trial may give up long before the end of the input)
	for k in &first_keys {
		out.push((
			vec![V::Map(vec![
				(V::s("t"), V::Map(vec![(V::s("x"), V::Int(1)), (V::s("y"), V::s(k))])),
				(V::s("u"), V::Map(vec![(V::s(k), V::Arr(vec![V::s(k), V::s("tail")]))])),
			])],
			"nested-strings",
		));
	}
	// TOML (and other) output on which an earlier detection trial gives up early, followed by a long tail
	for tail in [1500usize, 2100, 9000, 70_000] {
		for first in ["see: below", "x #y", "a: b: c", "- d"] {
			out.push((vec![V::map(vec![("a", V::s(first)), ("b", V::Int(1)), ("c", V::Str("t".repeat(tail)))])], "early-failure-long-tail"));
			out.push((vec![V::map(vec![("t", V::map(vec![("a", V::s(first)), ("c", V::Str("t".repeat(tail)))]))])], "early-failure-long-tail"));
		}
	}
	// outputs larger than the parser's raw buffer with multi-byte characters across its edges
	for boundary in [8192usize, 16384, 24576] {
		for ch in ["é", "€", "😀"] {
			for align in 0..ch.len() {
				let mut s = "p".repeat(boundary - 60 + align);
				for _ in 0..40 {
					s.push_str(ch);
				}
				s.push_str(&"q".repeat(20_000));
				out.push((vec![V::map(vec![("k", V::Str(s))])], "buffer-straddle"));
			}
		}
	}
	// sizes around MessagePack header widths
	for len in [0usize, 1, 15, 16, 17, 255, 256, 65535, 65536] {
		if len > 300 && !thorough && len != 65536 && len != 65535 {
			continue;
		}
		out.push((vec![V::Arr((0..len).map(|i| V::Int(i as i128 % 100)).collect())], "sized"));
		out.push((vec![V::Map((0..len).map(|i| (V::Str(format!("k{i}")), V::Int(1))).collect())], "sized"));
	}
	// several documents: collection first, then anything
	let tails = [V::Int(1), V::s("x"), V::Null, V::Arr(vec![]), V::map(vec![("a", V::Bool(true))])];
	for t in trees.iter().take(if thorough { 400 } else { 60 }) {
		for tail in &tails {
			out.push((vec![t.clone(), tail.clone()], "multi"));
			out.push((vec![t.clone(), tail.clone(), t.clone()], "multi"));
		}
	}
	out
}

fn check_output(t: &mut Tally, out: &[u8], f: F, d: usize, origin: &str) {
	let exc = if f == F::Toml { toml_exception(out) } else { None };
	let case = |mode: &str, chunk: usize, choices: &[u16]| json!({"kind": "own-output", "format": f.name(), "bytes_hex": hex(out), "text": show(out), "mode": mode, "policy_chunk": chunk, "choices": choices});
	if let Some(e) = exc {
		t.count(&format!("toml-exception:{e}"));
		return;
	}
	t.count(&format!("judged:{}", f.name()));
	t.nontrivial(fnv(&[out, f.name().as_bytes()]));
	let ds = detect_slice(out);
	t.evaluations += 1;
	if ds != Ok(Some(f)) {
		t.bad(format!("own-output-not-recognised:{}", f.name()), case("slice", 0, &[]), format!("{origin}: {} output {} detected from a slice as {:?}", f.name(), show(out), ds));
	}
	let marks = newline_marks(out);
	for chunk in [0usize, 1] {
		if out.len() > 2000 && chunk == 1 {
			// long outputs: fixed policies only
			let dr = detect_reader(ChunkReader::new(out, 7));
			t.evaluations += 1;
			if dr != Ok(Some(f)) {
				t.bad(format!("own-output-not-recognised:{}", f.name()), case("reader-fixed-7", 7, &[]), format!("{origin}: {} output {} detected from a reader (7-byte reads) as {:?}", f.name(), show(out), dr));
			}
			continue;
		}
		let pol = policy(chunk, true, false, &marks);
		let dd = if out.len() > 2000 { 0 } else { d };
		let st = explore(dd, 600, |env| {
			let dr = detect_reader(SchedReader::new(out, env, pol.clone()));
			t.evaluations += 1;
			if dr != Ok(Some(f)) {
				let choices = env.borrow().choices();
				t.bad(format!("own-output-not-recognised:{}", f.name()), case("reader", chunk, &choices),
					format!("{origin}: {} output {} detected from a reader (chunk {chunk}, choices {choices:?}) as {:?}", f.name(), show(out), dr));
			}
		});
		t.states += st.runs;
		t.transitions += st.points;
		t.traces += st.runs;
	}
	// end to end: xt -t F | xt  ==  xt -t F | xt -f F
	for x in [F::Json, F::Yaml] {
		let a = run_slice(out, None, x);
		let b = run_slice(out, Some(f), x);
		let c = run_reader(ChunkReader::new(out, 5), None, x);
		t.evaluations += 3;
		if a != b || c.ok != b.ok || c.out != b.out {
			t.bad(format!("own-output-differs-without-f:{}", f.name()), case("end-to-end", 0, &[]),
				format!("{origin}: {} output {} -> {}: detected {} / {} | explicit {}", f.name(), show(out), x.name(), a.brief(), c.brief(), b.brief()));
		}
	}
}

pub fn run(ctx: &Ctx) -> CheckOutput {
	let thorough = ctx.thorough();
	let d = 1;
	let streams = streams(thorough);
	let tallies = par_fold(&streams, Tally::default, |t, idx, (docs, family)| {
		// write the stream with xt in each format, from two different sources
		for (src, st) in [(F::Json, 0u32), (F::Msgpack, 0)] {
			let Some(input) = spell_stream(src, docs, Style(st), 0) else { continue };
			for f in F::ALL {
				if f == F::Toml && docs.len() != 1 {
					continue;
				}
				let o = run_slice(&input, Some(src), f);
				if !o.ok {
					t.count(&format!("unwritable:{}", f.name()));
					continue;
				}
				t.count(&format!("written:{}:{}", f.name(), family));
				check_output(t, &o.out, f, d, &format!("{family} via {}", src.name()));
			}
		}
		if idx % 499 == 0 {
			t.sample(6, || json!({"family": family, "docs": docs.iter().map(|d| { let s = d.dump(); s[..s.len().min(80)].to_string() }).collect::<Vec<_>>()}));
		}
	});
	let mut tally = Tally::merge_all(tallies);
	// streams whose FIRST document, as written by xt in format f, has an exact size around every buffer
	// size (what detection has captured when the translator takes over depends on it)
	let ladder: Vec<(F, usize)> = [F::Json, F::Msgpack, F::Yaml].into_iter().flat_map(|f| crate::gen::size_ladder(thorough).into_iter().map(move |s| (f, s))).collect();
	let tl = par_fold(&ladder, Tally::default, |t, _, &(f, size)| {
		let doc = |n: usize| V::map(vec![("p", V::Str("z".repeat(n)))]);
		let first_len = |n: usize| spell_doc(F::Json, &doc(n), Style(0)).map(|b| run_slice(&b, Some(F::Json), f)).filter(|o| o.ok).map(|o| o.out.len());
		let Some(base) = first_len(0) else { return };
		let mut n = size.saturating_sub(base);
		for _ in 0..4 {
			match first_len(n) {
				Some(l) if l == size => break,
				Some(l) if l < size => n += size - l,
				Some(l) => n = n.saturating_sub(l - size),
				None => return,
			}
		}
		if first_len(n) != Some(size) {
			t.count("sized-first-output:size-not-reachable");
			return;
		}
		let docs = vec![doc(n), V::map(vec![("second", V::Int(2))]), V::Arr(vec![V::s("third")])];
		let input = spell_stream(F::Json, &docs, Style(0), 0).unwrap();
		let o = run_slice(&input, Some(F::Json), f);
		if o.ok {
			t.count(&format!("written:{}:sized-first-output", f.name()));
			t.count("sized-first-output");
			check_output(t, &o.out, f, 0, &format!("sized-first-output({size}) via json"));
		}
	});
	tally.merge(Tally::merge_all(tl));
	let req = |k: &str| (k.to_string(), *tally.counters.get(k).unwrap_or(&0));
	let required = vec![
		req("sized-first-output"), req("judged:json"), req("judged:msgpack"), req("judged:yaml"), req("judged:toml"),
		req("toml-exception:starts-with-a-json-value"), req("toml-exception:is-a-yaml-collection-document"),
	];
	CheckOutput {
		level: "exploration",
		tally,
		rule: "documents: every collection-rooted tree up to n nodes, maps/arrays whose first key/element is each member of the string family (empty, numeric-looking, quoted, non-ASCII, first encoded byte in 0x80-0xDF), collections sized around every MessagePack header width (0,1,15,16,17,255,256,65535,65536), multi-document streams with a collection first, three-document streams whose first document as written by xt has every exact size 2^k-1, 2^k, 2^k+1 around 4 KiB..64 KiB (thorough 1 KiB..256 KiB); each written by xt itself in all four formats (from a JSON and a MessagePack spelling); the output must be detected as the format it was written in from a slice and from a reader under every schedule with <= 1 deviation (both default policies), and xt(None->X)(out) must equal xt(F->X)(out) for X in {JSON, YAML}. For TOML output the documented exception is decided by the harness's own JSON reader (complete JSON value at the start) and own YAML reader (first document a collection followed by a clean boundary); excepted cases are counted, not judged.".into(),
		exhaustive: true,
		bounds: json!({"tree_nodes": if thorough { 5 } else { 4 }, "deviations": d}),
		assumptions: vec!["the TOML exception predicate is computed without xt (own JSON reader, libyaml events)".into()],
		required,
		extra: Default::default(),
	}
}

pub fn replay(case: &Value) -> Option<String> {
	let out = unhex(case["bytes_hex"].as_str().unwrap());
	let f = F::parse(case["format"].as_str().unwrap()).unwrap();
	if f == F::Toml && toml_exception(&out).is_some() {
		return None;
	}
	let mode = case["mode"].as_str().unwrap_or("");
	match mode {
		"slice" => {
			let d = detect_slice(&out);
			(d != Ok(Some(f))).then(|| format!("detected as {d:?}"))
		}
		"reader-fixed-7" => {
			let d = detect_reader(ChunkReader::new(&out, 7));
			(d != Ok(Some(f))).then(|| format!("detected as {d:?}"))
		}
		"reader" => {
			let choices: Vec<u16> = case["choices"].as_array().unwrap().iter().map(|x| x.as_u64().unwrap() as u16).collect();
			let env = crate::env::Env::new(choices);
			let marks = newline_marks(&out);
			let d = detect_reader(SchedReader::new(&out, &env, policy(case["policy_chunk"].as_u64().unwrap() as usize, true, false, &marks)));
			(d != Ok(Some(f))).then(|| format!("detected as {d:?}"))
		}
		_ => {
			for x in [F::Json, F::Yaml] {
				let a = run_slice(&out, None, x);
				let b = run_slice(&out, Some(f), x);
				let c = run_reader(ChunkReader::new(&out, 5), None, x);
				if a != b || c.ok != b.ok || c.out != b.out {
					return Some(format!("detected {} / {} | explicit {}", a.brief(), c.brief(), b.brief()));
				}
			}
			None
		}
	}
}
