//! C02 — result independent of input source and read schedule.
//! (I)x(S): bounded-exhaustive inputs x deviation-bounded read schedules, slice as the reference.

use serde_json::{json, Value};

use super::common::*;
use crate::env::{explore, Env, SchedReader};
use crate::gen;
use crate::model::{json_adjacent_scalar_boundaries, JsonReader};
use crate::report::{CheckOutput, Ctx, Tally};
use crate::run::{detect_slice, fname, run_reader, ChunkReader, Outcome, F};
use crate::util::{fnv, par_fold, show};

pub struct Job {
	pub input: Vec<u8>,
	pub src: F,
	pub origin: &'static str,
}

pub fn corpus(thorough: bool) -> Vec<Job> {
	let mut jobs = vec![];
	for f in F::ALL {
		let k = match (f, thorough) {
			(F::Json, false) => 4,
			(F::Json, true) => 5,
			(F::Yaml, false) => 3,
			(F::Yaml, true) => 4,
			(F::Msgpack, false) => 3,
			(F::Msgpack, true) => 4,
			(F::Toml, false) => 3,
			(F::Toml, true) => 4,
		};
		// thorough MessagePack: length 4 only behind a collection marker (40^4 unrestricted is 2.5 M inputs)
		let kk = if f == F::Msgpack && thorough { 3 } else { k };
		for s in gen::token_seqs(&gen::alphabet(f), kk) {
			jobs.push(Job { input: s, src: f, origin: "tokens" });
		}
		if f == F::Msgpack && thorough {
			let alpha = gen::alphabet(f);
			for s in gen::token_seqs(&alpha, 3) {
				if s.len() == 3 {
					for first in [0x90u8, 0x91, 0x92, 0xdc, 0xdd, 0x80, 0x81, 0x82, 0xde, 0xdf] {
						let mut v = vec![first];
						v.extend_from_slice(&s);
						jobs.push(Job { input: v, src: f, origin: "tokens" });
					}
				}
			}
		}
		let seeds = gen::seeds(f);
		for s in &seeds {
			jobs.push(Job { input: s.clone(), src: f, origin: "seed" });
		}
		for s in gen::linebreak_variants(f) {
			jobs.push(Job { input: s, src: f, origin: "seed-crlf/cr" });
		}
		if f == F::Yaml {
			// multi-byte characters across the parser's / BufReader's buffer edges, plenty of input after them
			for boundary in [8192usize, 16384, 24576] {
				for ch in ["é", "€", "😀"] {
					for align in 0..ch.len() {
						let mut s = format!("k: \"{}", "p".repeat(boundary - 60 + align));
						for _ in 0..40 {
							s.push_str(ch);
						}
						s.push_str(&"q".repeat(20_000));
						s.push_str("\"\n---\n- next\n");
						jobs.push(Job { input: s.into_bytes(), src: f, origin: "buffer-straddle" });
					}
				}
			}
		}
		if f == F::Toml {
			// sizes around the 2 MiB cut-off of TOML detection from a reader (the YAML trial fails on line 2; the comments keep libyaml's scanner from running ahead into the long line)
			let sizes: &[usize] = if thorough { &[1_999_999, 2_000_000, 2_000_001, 2_050_000, 2_097_150, 2_097_151] } else { &[2_000_001, 2_097_151] };
			for &size in sizes {
				let mut s = String::from("[t]\na = 1 # c\nb = 2 # c\nk = \"");
				let pad = size - s.len() - 2;
				s.push_str(&"z".repeat(pad));
				s.push_str("\"\n");
				assert!(s.len() == size);
				jobs.push(Job { input: s.into_bytes(), src: f, origin: "near-2MiB" });
			}
		}
		// exact sizes around every buffer size: a leading comment block / the first document of a stream
		if f == F::Yaml {
			for l in gen::yaml_layouts(thorough) {
				jobs.push(Job { input: l.bytes, src: f, origin: "size-ladder" });
			}
		}
		for l in gen::sized_streams(f, thorough) {
			jobs.push(Job { input: l.bytes, src: f, origin: "size-ladder" });
		}
		let max_edit = if thorough { 400 } else { 48 };
		let mut edits = vec![];
		for s in &seeds {
			edits.extend(gen::single_edits(s, max_edit));
		}
		for e in gen::dedup(edits) {
			jobs.push(Job { input: e, src: f, origin: "edit" });
		}
	}
	jobs
}

/// Explanation tests of the known-finding classes; each is decided without trusting the failing run.
pub fn classify(input: &[u8], from: Option<F>, to: F, s: &Outcome, r: &Outcome) -> String {
	if s.panic.is_some() || r.panic.is_some() {
		return format!("panic:{}->{}", fname(from), to.name());
	}
	let resolved = from.or_else(|| detect_slice(input).ok().flatten());
	let fixed_runs = |inp: &[u8]| -> (Outcome, Outcome, Outcome) {
		(
			slice(inp, from, to),
			run_reader(ChunkReader::new(inp, 0), from, to),
			run_reader(ChunkReader::new(inp, 1), from, to),
		)
	};
	// D9: UTF-8 byte order marks in YAML (documented limitation).
	if matches!(resolved, Some(F::Yaml) | None) && input.windows(3).any(|w| w == [0xEF, 0xBB, 0xBF]) {
		let mut stripped = vec![];
		let mut i = 0;
		while i < input.len() {
			if input[i..].starts_with(&[0xEF, 0xBB, 0xBF]) {
				i += 3;
			} else {
				stripped.push(input[i]);
				i += 1;
			}
		}
		let (a, b, c) = fixed_runs(&stripped);
		if agree(&a, &b) && agree(&a, &c) {
			return "yaml-utf8-bom".into();
		}
		// Without the marks the only remaining disagreement may be another listed class
		// (e.g. nothing but marks: the stripped stream has no document at all).
		if stripped.len() < input.len() && !stripped.windows(3).any(|w| w == [0xEF, 0xBB, 0xBF]) {
			let other = if !agree(&a, &b) { classify(&stripped, from, to, &a, &b) } else { classify(&stripped, from, to, &a, &c) };
			if other == "yaml-slice-void-document" {
				return "yaml-utf8-bom".into();
			}
		}
	}
	// D5: the JSON reader loop accepts a bare scalar immediately followed by another value.
	if matches!(resolved, Some(F::Json) | None) || from.is_none() {
		let bounds = json_adjacent_scalar_boundaries(input);
		if !bounds.is_empty() {
			let mut spaced = Vec::with_capacity(input.len() + bounds.len());
			for (i, &b) in input.iter().enumerate() {
				if bounds.contains(&i) {
					spaced.push(b' ');
				}
				spaced.push(b);
			}
			let (a, b, c) = fixed_runs(&spaced);
			let r0 = run_reader(ChunkReader::new(input, 0), from, to);
			if agree(&a, &b) && agree(&a, &c) && agree(&b, &r0) && b.ok == r0.ok && !s.ok {
				return "json-reader-adjacent-scalars".into();
			}
		}
	}
	// D6: a YAML stream without any document.
	if resolved == Some(F::Yaml) && !s.ok && r.ok && r.out.is_empty() {
		if std::str::from_utf8(input).is_ok() && crate::yamlread::document_count(input) == Some(0) {
			return "yaml-slice-void-document".into();
		}
	}
	// D7: duplicate JSON keys into TOML.
	if resolved == Some(F::Json) && to == F::Toml && s.ok && !r.ok && r.err.contains("duplicate key") {
		let mut jr = JsonReader::new(input);
		let mut fine = true;
		while !jr.at_end() {
			if jr.value().is_err() {
				fine = false;
				break;
			}
		}
		if fine && jr.dup_keys {
			return "toml-json-slice-duplicate-key".into();
		}
	}
	format!("unexplained:{}->{}:slice={},reader={}", fname(from), to.name(), s.verdict(), r.verdict())
}

fn check_one(t: &mut Tally, input: &[u8], from: Option<F>, to: F, d: usize, all_len: usize, s: &Outcome, thorough: bool) {
	let marks = newline_marks(input);
	let chunks: &[usize] = if input.len() <= 2 { &[0] } else if input.len() > 100_000 { &[0, 65536] } else if input.len() > 4096 { &[0, 1, 4093] } else if thorough { &[0, 1, 2, 3, 7] } else { &[0, 1] };
	let mut cache: Vec<(Outcome, String)> = vec![];
	for &chunk in chunks {
		let d_eff = if chunk == 0 && input.len() <= all_len { 64 } else if input.len() > 4096 { 0 } else if input.len() > 12 { d.min(1) } else { d };
		let pol = policy(chunk, true, false, &marks);
		let st = explore(d_eff, 6000, |env| {
			let r = run_reader(SchedReader::new(input, env, pol.clone()), from, to);
			t.evaluations += 1;
			if !agree(s, &r) {
				let class = match cache.iter().find(|(o, _)| *o == r) {
					Some((_, c)) => c.clone(),
					None => {
						let c = classify(input, from, to, s, &r);
						cache.push((r.clone(), c.clone()));
						c
					}
				};
				let choices = env.borrow().choices();
				t.bad(
					class,
					xlate_case(input, from, to, chunk, &choices, true, false),
					format!(
						"input={} from={} to={} chunk={} choices={:?}: slice {} | reader {}",
						show(input), fname(from), to.name(), chunk, choices, s.brief(), r.brief()
					),
				);
			}
		});
		t.states += st.runs;
		t.transitions += st.points;
		t.traces += st.runs;
		if st.capped {
			t.capped += 1;
		}
		t.count(if d_eff == 64 { "schedules:all-chunkings" } else { "schedules:deviation-bounded" });
	}
}

/// The two ways the shipped binary gets at the bytes: a file operand (memory-mapped, the slice program)
/// and standard input (a reader). Each must give exactly what the library gives for that supply mode -
/// the library's modes are tied to each other by the main stage.
fn cli_part() -> Tally {
	use crate::proc::{self, Exit, Spawn, Stdin, WorkDir};
	proc::assert_bins();
	let w = WorkDir::new("c02-cli");
	let mut inputs: Vec<(F, Vec<u8>)> = vec![];
	for f in F::ALL {
		inputs.push((f, vec![]));
		for s in gen::seeds(f) {
			if s.len() <= 70_000 {
				inputs.push((f, s));
			}
		}
		for l in gen::sized_streams(f, false).into_iter().step_by(3) {
			inputs.push((f, l.bytes));
		}
	}
	for l in gen::yaml_layouts(false).into_iter().step_by(17) {
		inputs.push((F::Yaml, l.bytes));
	}
	let dir = w.path().to_path_buf();
	let tallies = par_fold(&inputs, Tally::default, |t, idx, (f, input)| {
		let name = format!("in{idx}");
		std::fs::write(dir.join(&name), input).unwrap();
		for from in [Some(*f), None] {
			let mut base: Vec<String> = vec!["-tj".into()];
			if let Some(f) = from {
				base.push(format!("-f{}", f.letter()));
			}
			for by_file in [true, false] {
				let mut args = base.clone();
				if by_file {
					args.push(name.clone());
				}
				let argv: Vec<&str> = args.iter().map(String::as_str).collect();
				let mut sp = Spawn::new(&dir, &argv);
				if !by_file {
					sp.stdin = Stdin::Bytes(input.clone());
				}
				sp.release = idx % 2 == 0;
				let o = proc::run(&sp);
				let lib = if by_file { slice(input, from, F::Json) } else { run_reader(ChunkReader::new(input, 0), from, F::Json) };
				t.evaluations += 1;
				t.count(if by_file { "cli:file-operand" } else { "cli:standard-input" });
				let good = match &o.exit {
					Exit::Code(0) => lib.ok && o.stdout == lib.out,
					Exit::Code(1) => !lib.ok && o.stderr.starts_with(b"xt error"),
					_ => false,
				};
				if !good {
					t.bad(if by_file { "cli-file-operand-differs-from-slice" } else { "cli-standard-input-differs-from-reader" },
						json!({"kind": "cli-supply", "input_hex": if input.len() <= 4096 { crate::util::hex(input) } else { String::new() }, "input_len": input.len(), "from": fname(from), "by_file": by_file}),
						format!("input={} ({} bytes) from={} given {}: {} | the library's {} program: {}", show(&input[..input.len().min(60)]), input.len(), fname(from), if by_file { "as a file operand" } else { "on standard input" }, o.brief(), if by_file { "slice" } else { "reader" }, lib.brief()));
				}
			}
		}
		let _ = std::fs::remove_file(dir.join(&name));
	});
	Tally::merge_all(tallies)
}

pub fn run(ctx: &Ctx) -> CheckOutput {
	let thorough = ctx.thorough();
	let d = if thorough { 2 } else { 1 };
	let all_len = if thorough { 11 } else { 8 };
	let mut jobs = corpus(thorough);
	for b in gen::all_bytes(2) {
		jobs.push(Job { input: b, src: F::Msgpack, origin: "bytes" });
	}
	let tallies = par_fold(&jobs, Tally::default, |t, idx, job| {
		let input = &job.input[..];
		let froms: &[Option<F>] = if job.origin == "bytes" { &[None] } else { &[Some(job.src), None] };
		for &from in froms {
			let s_json = slice(input, from, F::Json);
			let targets: Vec<F> = if s_json.ok && input.len() <= 100_000 { F::ALL.to_vec() } else { vec![F::Json] };
			for to in targets {
				let s = if to == F::Json { s_json.clone() } else { slice(input, from, to) };
				check_one(t, input, from, to, d, all_len, &s, thorough);
				t.count(&format!("pair:{}->{}", fname(from), to.name()));
				if s.ok || s.err != "unable to detect input format" {
					t.nontrivial(fnv(&[input, fname(from).as_bytes(), to.name().as_bytes(), s.verdict().as_bytes()]));
				}
				t.count(&format!("slice-verdict:{}", s.verdict()));
			}
		}
		t.count(&format!("origin:{}", job.origin));
		if idx % 9973 == 0 {
			t.sample(4, || json!({"input": show(input), "source": job.src.name(), "origin": job.origin}));
		}
		// determinism guard: a slice of the cases is run twice and compared
		if idx % 101 == 0 {
			let a = run_reader(ChunkReader::new(input, 1), None, F::Json);
			let b = run_reader(ChunkReader::new(input, 1), None, F::Json);
			assert!(a == b, "MACHINERY: nondeterministic outcome for {}", show(input));
		}
	});
	let mut tally = Tally::merge_all(tallies);
	tally.merge(cli_part());
	let req = |k: &str| (k.to_string(), *tally.counters.get(k).unwrap_or(&0));
	let required = vec![
		req("cli:file-operand"), req("cli:standard-input"),
		req("pair:json->json"), req("pair:yaml->json"), req("pair:msgpack->json"), req("pair:toml->json"),
		req("pair:detect->json"), req("pair:json->toml"), req("pair:yaml->msgpack"), req("pair:detect->yaml"),
		req("schedules:all-chunkings"), req("schedules:deviation-bounded"), req("slice-verdict:ok"), req("slice-verdict:err"),
	];
	CheckOutput {
		level: "model_checking",
		tally,
		rule: format!(
			"inputs: all token sequences (JSON k<={}, YAML/MessagePack/TOML k<={}) over the per-format alphabets, seed corpus and its single-edit neighbourhood, all byte strings of length <=2 (detected); for each input x source in {{explicit, detected}} x targets (JSON always; all four when the slice run succeeds): translate_slice once, then translate_reader under default policies {{all,1 bytes per read (thorough: all,1,2,3,7)}} and every schedule with <= {} deviations (all chunkings when the input is <= {} bytes); oracle: same verdict, identical bytes on success, prefix-comparable partial output on failure. A case is non-trivial when the slice run reached a translator (did not stop at 'unable to detect input format'); distinct by (input, source, target, verdict). CLI: the empty input, every seed and a third of the ladder streams given to the shipped binary as a file operand (memory-mapped) and on standard input, source named and detected: exit status and stdout equal the library's slice resp. reader program.",
			if thorough { 5 } else { 4 }, if thorough { 4 } else { 3 }, d, all_len
		),
		exhaustive: true,
		bounds: json!({"deviations": d, "all_chunkings_up_to_len": all_len, "max_runs_per_exploration": 6000}),
		assumptions: vec![
			"readers never return Interrupted or a premature Ok(0); short reads, not errors, are the schedule alphabet here (faults belong to C12)".into(),
			"states = executions (tree nodes), transitions = choice points taken; every trace is an execution of the real xt library".into(),
		],
		required,
		extra: Default::default(),
	}
}

pub fn replay(case: &Value) -> Option<String> {
	let c = parse_xlate(case);
	let s = slice(&c.input, c.from, c.to);
	let marks = newline_marks(&c.input);
	let env = Env::new(c.choices.clone());
	let r = run_reader(SchedReader::new(&c.input, &env, policy(c.chunk, c.sizes, c.faults, &marks)), c.from, c.to);
	if agree(&s, &r) {
		None
	} else {
		Some(format!(
			"class={} slice {} | reader {}",
			classify(&c.input, c.from, c.to, &s, &r),
			s.brief(),
			r.brief()
		))
	}
}
