//! C11 — errors name their true cause. Fault enumeration: a syntax defect at every byte, an
//! unrepresentable value at every node, a writer that starts failing at every output byte.

use std::io::{BufRead, BufReader};

use serde::de::IgnoredAny;
use serde::Deserialize;
use serde_json::{json, Value};

use super::common::*;
use crate::env::{FailAtWriter, INJECTED_WRITE};
use crate::model::V;
use crate::report::{CheckOutput, Ctx, Tally};
use crate::run::{run_reader_to, run_slice_to, ChunkReader, F};
use crate::spell::{spell_doc, Style};
use crate::util::{fnv, hex, par_fold, show, unhex};
use crate::vals;

const TF: &str = "translation failed";

// ------------------------------------------------------------------------------- references

/// The text the source crate's own parser gives for `bytes`, driven through the same entry point
/// xt uses but with a do-nothing visitor. None = the parser accepts the whole input, or no
/// reference is defined for this (format, mode).
pub fn reference_parse_error(src: F, bytes: &[u8], reader: bool) -> Option<String> {
	match (src, reader) {
		(F::Json, false) => {
			let s = match std::str::from_utf8(bytes) {
				Ok(s) => s,
				Err(e) => return Some(e.to_string()),
			};
			for v in serde_json::Deserializer::from_str(s).into_iter::<serde_json::Value>() {
				if let Err(e) = v {
					return Some(e.to_string());
				}
			}
			None
		}
		(F::Json, true) => {
			let mut de = serde_json::Deserializer::from_reader(BufReader::new(bytes));
			while de.end().is_err() {
				if let Err(e) = serde_json::Value::deserialize(&mut de) {
					return Some(e.to_string());
				}
			}
			None
		}
		(F::Msgpack, false) => {
			let mut rest = bytes;
			while !rest.is_empty() {
				let n = match xt::verif::msgpack_value_size(rest) {
					Ok(n) => n,
					Err(e) => return Some(e),
				};
				let (next, r) = rest.split_at(n);
				rest = r;
				let mut de = rmp_serde::Deserializer::from_read_ref(next);
				de.set_max_depth(1024);
				if let Err(e) = IgnoredAny::deserialize(&mut de) {
					return Some(e.to_string());
				}
			}
			None
		}
		(F::Msgpack, true) => {
			let mut r = BufReader::new(bytes);
			while !r.fill_buf().ok()?.is_empty() {
				let mut de = rmp_serde::Deserializer::new(&mut r);
				de.set_max_depth(1024);
				if let Err(e) = IgnoredAny::deserialize(&mut de) {
					return Some(e.to_string());
				}
			}
			None
		}
		(F::Yaml, false) => {
			let s = std::str::from_utf8(bytes).ok()?;
			if !matches!(xt::verif::yaml_detect_encoding(bytes), "utf8") {
				return None;
			}
			for de in serde_yaml::Deserializer::from_str(s) {
				if let Err(e) = serde_yaml::Value::deserialize(de) {
					let text = e.to_string();
					// serde_yaml::Value (unlike a transcoding visitor) rejects duplicate keys: no reference then
					if text.contains("duplicate entry") {
						return None;
					}
					return Some(text);
				}
			}
			None
		}
		(F::Yaml, true) => None,
		(F::Toml, _) => {
			let s = match std::str::from_utf8(bytes) {
				Ok(s) => s,
				Err(e) => return Some(e.to_string()),
			};
			match IgnoredAny::deserialize(toml::Deserializer::new(s)) {
				Ok(_) => None,
				Err(e) => Some(e.to_string()),
			}
		}
	}
}

/// Reasons with which a target's serializer refuses values no matter where they sit (obtained by
/// handing probe values to the crate's serializer at run time).
fn generic_refusals(to: F) -> Vec<String> {
	let probes = [
		V::Bytes(vec![1]),
		V::Map(vec![(V::Null, V::Int(1))]),
		V::Map(vec![(V::Arr(vec![]), V::Int(1))]),
		V::Map(vec![(V::Map(vec![]), V::Int(1))]),
		V::Map(vec![(V::Bool(true), V::Int(1))]),
		V::Map(vec![(V::Float(1.5f64.to_bits()), V::Int(1))]),
		V::Float(f64::NAN.to_bits()),
	];
	let mut out = vec![];
	for p in &probes {
		for r in reference_refusal_reasons(p, to) {
			if !out.contains(&r) {
				out.push(r);
			}
		}
	}
	out
}

/// Other entry points of the same source crate that a refactoring of xt could legitimately use; their
/// texts are accepted as "the parser's own message" too.
pub fn alternative_parse_errors(src: F, bytes: &[u8]) -> Vec<String> {
	let mut out = vec![];
	match src {
		F::Json => {
			for v in serde_json::Deserializer::from_slice(bytes).into_iter::<serde_json::Value>() {
				if let Err(e) = v {
					out.push(e.to_string());
					break;
				}
			}
			for v in serde_json::Deserializer::from_slice(bytes).into_iter::<IgnoredAny>() {
				if let Err(e) = v {
					out.push(e.to_string());
					break;
				}
			}
			for v in serde_json::Deserializer::from_reader(bytes).into_iter::<serde_json::Value>() {
				if let Err(e) = v {
					out.push(e.to_string());
					break;
				}
			}
			if let Some(e) = reference_parse_error(src, bytes, false) {
				out.push(e);
			}
			if let Some(e) = reference_parse_error(src, bytes, true) {
				out.push(e);
			}
		}
		F::Msgpack => {
			if let Some(e) = reference_parse_error(src, bytes, false) {
				out.push(e);
			}
			if let Some(e) = reference_parse_error(src, bytes, true) {
				out.push(e);
			}
		}
		F::Yaml | F::Toml => {
			if let Some(e) = reference_parse_error(src, bytes, false) {
				out.push(e);
			}
		}
	}
	out
}

fn has_position(s: &str) -> bool {
	s.contains("line ") || s.contains("position") || s.contains("byte ") || s.contains("column") || s.contains("index ")
}

/// The reason(s) the target's own serializer gives for refusing `v` (read from the crate at run time).
pub fn reference_refusal_reasons(v: &V, to: F) -> Vec<String> {
	let mut out = vec![];
	match to {
		F::Json => {
			if let Err(e) = serde_json::to_vec(v) {
				out.push(e.to_string());
			}
		}
		F::Yaml => {
			if let Err(e) = serde_yaml::to_string(v) {
				out.push(e.to_string());
			}
		}
		F::Msgpack => {
			if let Err(e) = rmp_serde::to_vec(v) {
				out.push(e.to_string());
			}
		}
		F::Toml => {
			match toml::Value::try_from(v) {
				Err(e) => out.push(e.to_string()),
				Ok(toml::Value::Table(_)) => {}
				Ok(_) => out.push("root of TOML output must be a table".into()),
			}
			// the streaming path deserializes into toml::Value: its visitor's own refusal text
			if let Ok(bytes) = rmp_serde::to_vec(v) {
				let mut de = rmp_serde::Deserializer::from_read_ref(&bytes[..]);
				match toml::Value::deserialize(&mut de) {
					Err(e) => {
						let text = e.to_string();
						// the visitor's `expecting` phrase is the serializer-side reason proper
						if let Some(i) = text.find("expected ") {
							out.push(text[i..].to_string());
						}
						out.push(text);
					}
					Ok(toml::Value::Table(t)) => {
						if let Err(e) = toml::to_string_pretty(&t) {
							out.push(e.to_string());
						}
					}
					Ok(_) => out.push("root of TOML output must be a table".into()),
				}
			}
		}
	}
	out
}

// -------------------------------------------------------------------------------- the parts

fn input_case(src: F, bytes: &[u8], reader: bool) -> Value {
	json!({"kind": "syntax", "src": src.name(), "bytes_hex": hex(bytes), "text": show(bytes), "reader": reader})
}

fn judge_syntax(t: &mut Tally, src: F, bytes: &[u8]) {
	for reader in [false, true] {
		let mode = if reader { Mode::Reader3 } else { Mode::Slice };
		let mut texts: Vec<(F, String)> = vec![];
		let mut any_ok = false;
		for to in F::STREAMING {
			let o = run_mode(bytes, Some(src), to, mode);
			t.evaluations += 1;
			if let Some(p) = &o.panic {
				// a panic is no error text at all: the cause C11 asks for was not reported
				t.bad(format!("panic-instead-of-error:syntax:{}", to.name()), input_case(src, bytes, reader), format!("{} ({}) -> {} [{}] panicked: {p}", show(bytes), src.name(), to.name(), mode.name()));
				return;
			}
			if o.ok {
				any_ok = true;
			} else {
				texts.push((to, o.err));
			}
		}
		if texts.is_empty() {
			t.count("syntax:mutant-still-valid");
			continue;
		}
		let reference = reference_parse_error(src, bytes, reader);
		if reference.is_none() && src != F::Yaml {
			// well-formed for the source parser: the failure is on the output side (part B's business)
			t.count("syntax:well-formed-but-unrepresentable");
			continue;
		}
		if src == F::Yaml && reader && reference_parse_error(src, bytes, false).is_none() && std::str::from_utf8(bytes).is_ok() && xt::verif::yaml_detect_encoding(bytes) == "utf8" {
			t.count("syntax:well-formed-but-unrepresentable");
			continue;
		}
		t.count(&format!("syntax:judged:{}:{}", src.name(), if reader { "reader" } else { "slice" }));
		t.nontrivial(fnv(&[bytes, src.name().as_bytes(), &[u8::from(reader)]]));
		let case = input_case(src, bytes, reader);
		let head = format!("{} input {} ({})", src.name(), show(bytes), mode.name());
		if any_ok && reference.is_some() {
			t.bad("syntax-error-depends-on-target", case.clone(), format!("{head}: fails for {:?} but succeeds for another streaming target", texts.iter().map(|x| x.0.name()).collect::<Vec<_>>()));
			continue;
		}
		// A target that refused a value it cannot represent *before* the parser reached the defect
		// failed on the output side; it is left out of the comparison.
		let before = texts.len();
		texts.retain(|(to, e)| !generic_refusals(*to).iter().any(|r| e.contains(r.as_str())));
		if texts.len() < before {
			t.count("syntax:a-target-refused-an-earlier-value");
		}
		if texts.is_empty() {
			continue;
		}
		if texts.iter().any(|(_, e)| *e != texts[0].1) {
			t.bad("syntax-error-text-depends-on-target", case.clone(), format!("{head}: {:?}", texts));
			continue;
		}
		let text = &texts[0].1;
		if text.contains(TF) {
			t.bad("syntax-error-says-translation-failed", case.clone(), format!("{head}: '{text}'"));
			continue;
		}
		match &reference {
			Some(r) => {
				if text != r && !alternative_parse_errors(src, bytes).iter().any(|a| a == text) {
					t.bad(format!("syntax-error-not-the-parsers-own:{}", src.name()), case.clone(), format!("{head}: xt says '{text}', the parser itself says '{r}'"));
				}
			}
			None => {
				// YAML from a reader: xt's chunker (libyaml's problem text) or serde_yaml on a chunk
				let slice_text = reference_parse_error(src, bytes, false);
				if slice_text.as_deref().is_some_and(has_position) && !has_position(text) {
					t.bad("syntax-error-without-position", case.clone(), format!("{head}: '{text}' carries no position (slice parser: {slice_text:?})"));
				}
			}
		}
	}
}

fn planted_everywhere(tree: &V, bad: &V, as_key: bool, out: &mut Vec<V>) {
	fn go(v: &V, bad: &V, as_key: bool, rebuild: &dyn Fn(V) -> V, out: &mut Vec<V>) {
		if !as_key {
			out.push(rebuild(bad.clone()));
		}
		match v {
			V::Arr(a) => {
				for i in 0..a.len() {
					let a2 = a.clone();
					go(&a[i], bad, as_key, &|x| { let mut b = a2.clone(); b[i] = x; rebuild(V::Arr(b)) }, out);
				}
			}
			V::Map(m) => {
				for i in 0..m.len() {
					let m2 = m.clone();
					if as_key {
						let mut b = m2.clone();
						b[i].0 = bad.clone();
						out.push(rebuild(V::Map(b)));
					}
					go(&m[i].1, bad, as_key, &|x| { let mut b = m2.clone(); b[i].1 = x; rebuild(V::Map(b)) }, out);
				}
			}
			_ => {}
		}
	}
	go(tree, bad, as_key, &|x| x, out);
}

fn judge_refusal(t: &mut Tally, v: &V, to: F, what: &str) {
	let reasons = reference_refusal_reasons(v, to);
	if reasons.is_empty() {
		return;
	}
	for src in [F::Json, F::Yaml, F::Msgpack] {
		let Some(bytes) = spell_doc(src, v, Style(0)) else { continue };
		for reader in [false, true] {
			let mode = if reader { Mode::Reader3 } else { Mode::Slice };
			let o = run_mode(&bytes, Some(src), to, mode);
			t.evaluations += 1;
			if let Some(p) = &o.panic {
				let case = json!({"kind": "refusal", "src": src.name(), "to": to.name(), "bytes_hex": hex(&bytes), "text": show(&bytes), "reader": reader, "value": v.dump()});
				t.bad(format!("panic-instead-of-error:refusal:{}", to.name()), case, format!("{what}: {} ({}) -> {} ({}) panicked instead of returning the serializer's reason {:?}: {p}", show(&bytes), src.name(), to.name(), mode.name(), reasons));
				continue;
			}
			let case = json!({"kind": "refusal", "src": src.name(), "to": to.name(), "bytes_hex": hex(&bytes), "text": show(&bytes), "reader": reader, "value": v.dump()});
			t.count(&format!("refusal:judged:{}", to.name()));
			t.nontrivial(fnv(&[&bytes, to.name().as_bytes(), &[u8::from(reader)]]));
			if o.ok {
				t.bad(format!("unrepresentable-value-accepted:{}", to.name()), case, format!("{what}: {} -> {} ({}) succeeded with {} although the {} serializer refuses the value ({:?})", show(&bytes), to.name(), mode.name(), show(&o.out), to.name(), reasons));
				continue;
			}
			if !reasons.iter().any(|r| o.err.contains(r.as_str())) {
				t.bad(format!("refusal-reason-lost:{}", to.name()), case, format!("{what}: {} -> {} ({}): error '{}' does not contain the serializer's own reason {:?}", show(&bytes), to.name(), mode.name(), o.err, reasons));
			}
		}
	}
}

/// Which syntactic element of a JSON/YAML/MessagePack output byte k belongs to (coverage only).
fn element_class(out: &[u8], k: usize, to: F) -> &'static str {
	if to != F::Json {
		return "byte";
	}
	match out.get(k) {
		Some(b'{' | b'[') => "open-bracket",
		Some(b'}' | b']') => "close-bracket",
		Some(b',') => "comma",
		Some(b':') => "colon",
		Some(b'\n') => "newline",
		Some(b'"') => "string-piece",
		_ => "scalar",
	}
}

fn direct_write_reason(v: &V, to: F, k: usize) -> Option<String> {
	let (w, _) = FailAtWriter::new(k);
	match to {
		F::Json => serde_json::to_writer(w, v).err().map(|e| e.to_string()),
		F::Yaml => serde_yaml::to_writer(w, v).err().map(|e| e.to_string()),
		F::Msgpack => {
			let mut w = w;
			rmp_serde::encode::write(&mut w, v).err().map(|e| e.to_string())
		}
		F::Toml => Some(format!("{INJECTED_WRITE} @{k}")),
	}
}

fn judge_writer(t: &mut Tally, v: &V, what: &str) {
	for src in [F::Json, F::Yaml, F::Msgpack, F::Toml] {
		let Some(bytes) = spell_doc(src, v, Style(0)) else { continue };
		for to in F::ALL {
			let clean = crate::run::run_slice(&bytes, Some(src), to);
			if !clean.ok {
				continue;
			}
			for k in 0..clean.out.len() {
				// a writer that is simply full (reports Ok(0), like a fixed-size buffer): the translation
				// must not report success with part of the output missing
				for reader in [false, true] {
					let (w, acc) = FailAtWriter::zero(k);
					let (ok, _, panic) = if reader { run_reader_to(ChunkReader::new(&bytes, 0), Some(src), to, w) } else { run_slice_to(&bytes, Some(src), to, w) };
					t.evaluations += 1;
					t.count("writer:full-buffer");
					if panic.is_some() || (ok && *acc.borrow() != clean.out) {
						let case = json!({"kind": "writer", "src": src.name(), "to": to.name(), "bytes_hex": hex(&bytes), "text": show(&bytes), "k": k, "reader": reader, "value": v.dump()});
						t.bad(format!("write-failure-not-reported:{}", to.name()), case,
							format!("{what}: {} ({}) -> {} into a writer that is full after {k} of {} bytes [{}]: {}", show(&bytes), src.name(), to.name(), clean.out.len(), if reader { "reader" } else { "slice" }, if ok { "the translation returned Ok".to_string() } else { format!("panic {panic:?}") }));
					}
				}
				for reader in [false, true] {
					let (w, _) = FailAtWriter::new(k);
					let (ok, err, panic) = if reader { run_reader_to(ChunkReader::new(&bytes, 0), Some(src), to, w) } else { run_slice_to(&bytes, Some(src), to, w) };
					t.evaluations += 1;
					if let Some(p) = &panic {
						let case = json!({"kind": "writer", "src": src.name(), "to": to.name(), "bytes_hex": hex(&bytes), "text": show(&bytes), "k": k, "reader": reader, "value": v.dump()});
						t.bad(format!("panic-instead-of-error:writer:{}", to.name()), case, format!("{what}: {} ({}) -> {} with the writer failing at byte {k} [{}] panicked: {p}", show(&bytes), src.name(), to.name(), if reader { "reader" } else { "slice" }));
						continue;
					}
					if ok {
						// no error at all: the cause of the failed write was certainly not reported
						t.count(&format!("writer:{}:{}", to.name(), element_class(&clean.out, k, to)));
						let case = json!({"kind": "writer", "src": src.name(), "to": to.name(), "bytes_hex": hex(&bytes), "text": show(&bytes), "k": k, "reader": reader, "value": v.dump()});
						t.bad(format!("write-failure-not-reported:{}", to.name()), case,
							format!("{what}: {} ({}) -> {} with the writer failing at byte {k} of {} [{}]: the translation returned Ok", show(&bytes), src.name(), to.name(), show(&clean.out), if reader { "reader" } else { "slice" }));
						continue;
					}
					t.count(&format!("writer:{}:{}", to.name(), element_class(&clean.out, k, to)));
					t.nontrivial(fnv(&[&bytes, to.name().as_bytes(), &k.to_le_bytes()]));
					let io_text = format!("{INJECTED_WRITE} @{k}");
					let direct = direct_write_reason(v, to, k);
					let good = err.contains(&io_text) || direct.as_ref().is_some_and(|d| err.contains(d.as_str()));
					if !good {
						let case = json!({"kind": "writer", "src": src.name(), "to": to.name(), "bytes_hex": hex(&bytes), "text": show(&bytes), "k": k, "reader": reader, "value": v.dump()});
						t.bad(format!("write-failure-cause-lost:{}:{}", to.name(), element_class(&clean.out, k, to)), case,
							format!("{what}: {} ({}) -> {} with the writer failing at byte {k} of {} [{}]: error '{err}' contains neither the writer's text nor the serializer's own reason {:?}", show(&bytes), src.name(), to.name(), show(&clean.out), if reader { "reader" } else { "slice" }, direct));
					}
				}
			}
		}
	}
}

pub fn run(ctx: &Ctx) -> CheckOutput {
	let thorough = ctx.thorough();
	let n = if thorough { 5 } else { 4 };
	let trees = vals::trees(n, &[V::Int(1), V::s("a"), V::Bool(true), V::Null, V::f(-2.5)], &["a", "b", "c"]);
	// ---- A: a syntax defect at every byte position
	let mut mutants: Vec<(F, Vec<u8>)> = vec![];
	for t in &trees {
		for src in F::ALL {
			for st in [0u32, 1] {
				let Some(b) = spell_doc(src, t, Style(st)) else { continue };
				for i in 0..b.len() {
					let mut d = b.clone();
					d.remove(i);
					mutants.push((src, d));
					for r in [b'@', 0xC1u8] {
						if b[i] != r {
							let mut d = b.clone();
							d[i] = r;
							mutants.push((src, d));
						}
					}
				}
				mutants.push((src, b[..b.len() / 2].to_vec()));
			}
		}
	}
	let mut seen = std::collections::HashSet::new();
	mutants.retain(|m| seen.insert((m.0, m.1.clone())));
	let ta = par_fold(&mutants, Tally::default, |t, idx, (src, bytes)| {
		judge_syntax(t, *src, bytes);
		if idx % 20011 == 0 {
			t.sample(3, || json!({"syntax_mutant": show(bytes), "source": src.name()}));
		}
	});
	// ---- B: one unrepresentable value at every node path
	let big_trees = vals::trees(if thorough { 6 } else { 5 }, &[V::Int(1), V::s("a")], &["a", "b", "c", "d"]);
	let mut refusals: Vec<(V, F, &'static str)> = vec![];
	for t in &big_trees {
		if !t.is_collection() {
			continue;
		}
		for (bad, as_key, to, what) in [
			(V::Null, true, F::Json, "null-key"),
			(V::Arr(vec![V::Int(1)]), true, F::Json, "array-key"),
			(V::map(vec![("x", V::Int(1))]), true, F::Json, "map-key"),
			(V::Bytes(vec![1, 2]), false, F::Yaml, "binary"),
			(V::Null, false, F::Toml, "null"),
			(V::Float(f64::NAN.to_bits()), false, F::Json, "nan"),
		] {
			let mut out = vec![];
			planted_everywhere(t, &bad, as_key, &mut out);
			for v in out {
				let v = if to == F::Toml && !matches!(v, V::Map(_)) { V::Map(vec![(V::s("root"), v)]) } else { v };
				refusals.push((v, to, what));
			}
		}
	}
	for root in [V::Int(1), V::Arr(vec![V::Int(1)]), V::s("s"), V::Null] {
		refusals.push((root, F::Toml, "non-table-root"));
	}
	let tb = par_fold(&refusals, Tally::default, |t, idx, (v, to, what)| {
		judge_refusal(t, v, *to, what);
		if idx % 5003 == 0 {
			t.sample(3, || json!({"refusal": what, "target": to.name(), "value": v.dump()}));
		}
	});
	// ---- C: a writer that starts failing at every byte of the output
	let wtrees: Vec<V> = vals::trees(if thorough { 6 } else { 5 }, &[V::Int(1), V::s("ab"), V::Null], &["a", "b", "c", "d"]);
	let tc = par_fold(&wtrees, Tally::default, |t, idx, v| {
		judge_writer(t, v, "writer-fault");
		if idx % 401 == 0 {
			t.sample(3, || json!({"writer_fault_tree": v.dump()}));
		}
	});
	let mut tally = Tally::merge_all(ta);
	tally.merge(Tally::merge_all(tb));
	tally.merge(Tally::merge_all(tc));
	let req = |k: &str| (k.to_string(), *tally.counters.get(k).unwrap_or(&0));
	let mut required = vec![
		req("refusal:judged:json"), req("refusal:judged:yaml"), req("refusal:judged:toml"),
		req("writer:json:comma"), req("writer:json:colon"), req("writer:json:open-bracket"), req("writer:json:close-bracket"),
		req("writer:full-buffer"), req("writer:json:newline"), req("writer:json:string-piece"), req("writer:json:scalar"), req("writer:yaml:byte"), req("writer:msgpack:byte"), req("writer:toml:byte"),
	];
	for s in ["json", "yaml", "msgpack", "toml"] {
		required.push(req(&format!("syntax:judged:{s}:slice")));
		required.push(req(&format!("syntax:judged:{s}:reader")));
	}
	CheckOutput {
		level: "fault_enumeration",
		tally,
		rule: format!("(A) every tree with <= {n} nodes in two spellings of each source format, with one syntax defect at EVERY byte position (delete; replace by '@'; replace by 0xC1) and a truncation: for each malformed input, slice and reader, the error text is the same for the JSON, YAML and MessagePack targets, does not mention 'translation failed', and equals the text the source crate's own parser gives when the harness drives the same entry point with a do-nothing visitor (YAML from a reader: must carry a position when the slice parser's text does). (B) one unrepresentable value (null/array/map key -> JSON, NaN -> JSON, binary -> YAML, null or non-table root -> TOML) planted at EVERY node path of every collection tree: Err whose text contains the reason the target crate's serializer gives for the same value (read from the crate at run time). (C) for every tree, source and target, the writer starts failing at EVERY byte k of the output, slice and reader: the error text contains the writer's text or the reason the target serializer gives when driven directly into a writer failing at the same k; every syntactic element class (scalar, string piece, brackets, comma, colon, newline) must be hit."),
		exhaustive: true,
		bounds: json!({"tree_nodes_syntax": n, "tree_nodes_refusal_and_writer": if thorough { 6 } else { 5 }}),
		assumptions: vec!["reference texts are obtained at run time from serde_json / serde_yaml / rmp_serde / toml at the versions pinned by /repo/Cargo.lock".into()],
		required,
		extra: Default::default(),
	}
}

pub fn replay(case: &Value) -> Option<String> {
	let mut t = Tally::default();
	let get = |k: &str| case[k].as_str().unwrap_or("").to_string();
	match case["kind"].as_str().unwrap_or("") {
		"syntax" => judge_syntax(&mut t, F::parse(&get("src")).unwrap(), &unhex(&get("bytes_hex"))),
		"refusal" => judge_refusal(&mut t, &crate::model::parse_dump(&get("value")).unwrap(), F::parse(&get("to")).unwrap(), "replay"),
		"writer" => judge_writer(&mut t, &crate::model::parse_dump(&get("value")).unwrap(), "replay"),
		_ => return Some("unknown case".into()),
	}
	t.bad.into_iter().next().map(|(_, (_, b))| b.detail)
}
