//! Crash / hang isolation: a sweep is split over worker sub-processes that report the index of the
//! job in flight through a progress file. A worker that dies on a signal, exits abnormally or makes
//! no progress for too long is a finding *of that job*; the sweep continues behind it.

use std::fs::File;
use std::io::Read;
use std::os::unix::fs::FileExt;
use std::os::unix::process::ExitStatusExt;
use std::path::PathBuf;
use std::process::{Child, Command, Stdio};
use std::time::{Duration, Instant};

use serde_json::{json, Value};

use crate::report::Tally;

/// Progress value a worker sets while it runs its fixed warm-up input.
pub const WARMUP: u64 = u64::MAX - 1;

/// Lost workers after which the remaining jobs of a part are no longer attempted.
const MAX_LOSSES: usize = 48;

pub struct Progress(File);

impl Progress {
	pub fn open(path: &str) -> Progress {
		Progress(std::fs::OpenOptions::new().write(true).create(true).truncate(false).open(path).expect("MACHINERY: progress file"))
	}
	pub fn set(&self, idx: u64) {
		let _ = self.0.write_at(&idx.to_le_bytes(), 0);
	}
}

pub fn tally_to_json(t: &Tally) -> Value {
	json!({
		"evaluations": t.evaluations, "distinct": t.distinct.len(), "counters": t.counters, "maxes": t.maxes, "samples": t.samples,
		"states": t.states, "transitions": t.transitions, "traces": t.traces, "capped": t.capped,
		"bad": t.bad.iter().map(|(k, (n, b))| json!({"class": k, "n": n, "case": b.case, "detail": b.detail})).collect::<Vec<_>>(),
	})
}

pub struct Merged {
	pub tally: Tally,
	/// distinct counts of the (disjoint) parts add up
	pub distinct_sum: u64,
}

fn merge_json(m: &mut Merged, v: &Value) {
	let t = &mut m.tally;
	t.evaluations += v["evaluations"].as_u64().unwrap_or(0);
	m.distinct_sum += v["distinct"].as_u64().unwrap_or(0);
	t.states += v["states"].as_u64().unwrap_or(0);
	t.transitions += v["transitions"].as_u64().unwrap_or(0);
	t.traces += v["traces"].as_u64().unwrap_or(0);
	t.capped += v["capped"].as_u64().unwrap_or(0);
	if let Some(c) = v["counters"].as_object() {
		for (k, x) in c {
			t.add(k, x.as_u64().unwrap_or(0));
		}
	}
	if let Some(c) = v["maxes"].as_object() {
		for (k, x) in c {
			t.max(k, x.as_u64().unwrap_or(0));
		}
	}
	if let Some(s) = v["samples"].as_array() {
		for x in s {
			if t.samples.len() < 12 {
				t.samples.push(x.clone());
			}
		}
	}
	if let Some(b) = v["bad"].as_array() {
		for x in b {
			let class = x["class"].as_str().unwrap_or("?").to_string();
			let n = x["n"].as_u64().unwrap_or(1);
			t.bad(class.clone(), x["case"].clone(), x["detail"].as_str().unwrap_or("").to_string());
			if let Some(e) = t.bad.get_mut(&class) {
				e.0 += n - 1;
			}
		}
	}
}

struct Worker {
	part: usize,
	child: Child,
	progress_path: String,
	last_idx: u64,
	last_change: Instant,
}

fn read_progress(path: &str) -> u64 {
	let mut b = [0u8; 8];
	match File::open(path).and_then(|mut f| f.read_exact(&mut b)) {
		Ok(()) => u64::from_le_bytes(b),
		Err(_) => u64::MAX,
	}
}

/// Runs `exe worker <check> <tier> <part> <nparts> <start> <progress>` for every part.
/// `describe(idx)` renders the job in flight when a worker is lost.
pub fn run_isolated(
	exe: &PathBuf,
	env: &[(String, String)],
	check: &str,
	tier: &str,
	nparts: usize,
	njobs: usize,
	stall: Duration,
	describe: &dyn Fn(usize) -> (Value, String),
) -> Merged {
	let mut merged = Merged { tally: Tally::default(), distinct_sum: 0 };
	let dir = format!("{}/.work", crate::report::VERIF);
	std::fs::create_dir_all(&dir).ok();
	let spawn = |part: usize, start: usize| -> Worker {
		let progress_path = format!("{dir}/progress-{check}-{}-{part}", std::process::id());
		let _ = std::fs::remove_file(&progress_path);
		let mut cmd = Command::new(exe);
		cmd.args(["worker", check, tier, &part.to_string(), &nparts.to_string(), &start.to_string(), &progress_path]).stdout(Stdio::piped()).stderr(Stdio::piped());
		for (k, v) in env {
			cmd.env(k, v);
		}
		let child = cmd.spawn().expect("MACHINERY: cannot spawn worker");
		Worker { part, child, progress_path, last_idx: u64::MAX, last_change: Instant::now() }
	};
	let mut workers: Vec<Worker> = (0..nparts.min(njobs.max(1))).map(|p| spawn(p, p)).collect();
	let mut losses = 0usize;
	while !workers.is_empty() {
		std::thread::sleep(Duration::from_millis(20));
		let mut i = 0;
		while i < workers.len() {
			let w = &mut workers[i];
			let idx = read_progress(&w.progress_path);
			if idx != w.last_idx {
				w.last_idx = idx;
				w.last_change = Instant::now();
			}
			let mut lost: Option<String> = None;
			match w.child.try_wait().expect("MACHINERY: try_wait") {
				Some(st) => {
					let mut out = String::new();
					let mut err = String::new();
					if let Some(mut p) = w.child.stdout.take() {
						let _ = p.read_to_string(&mut out);
					}
					if let Some(mut p) = w.child.stderr.take() {
						let _ = p.read_to_string(&mut err);
					}
					let tally_path = format!("{}.tally", w.progress_path);
					if st.code() == Some(0) {
						let text = std::fs::read_to_string(&tally_path).unwrap_or_default();
						match serde_json::from_str::<Value>(&text) {
							Ok(v) => merge_json(&mut merged, &v),
							Err(e) => panic!("MACHINERY: worker {} left an unreadable tally: {e}", w.part),
						}
						let _ = std::fs::remove_file(&w.progress_path);
						let _ = std::fs::remove_file(&tally_path);
						workers.remove(i);
						continue;
					}
					let _ = std::fs::remove_file(&tally_path);
					if st.code() == Some(3) {
						panic!("MACHINERY: worker {} reported a machinery error: {}", w.part, err.lines().last().unwrap_or(""));
					}
					let _ = &out;
					let tail: String = err.lines().rev().take(3).collect::<Vec<_>>().into_iter().rev().collect::<Vec<_>>().join(" | ");
					lost = Some(match st.signal() {
						Some(s) => format!("worker killed by signal {s}; stderr: {tail}"),
						None => format!("worker exited with status {:?}; stderr: {tail}", st.code()),
					});
				}
				None => {
					if w.last_change.elapsed() > stall {
						let _ = w.child.kill();
						let _ = w.child.wait();
						lost = Some(format!("no progress for {} s (hang or runaway): killed by the watchdog", stall.as_secs()));
					}
				}
			}
			if let Some(why) = lost {
				losses += 1;
				let idx = w.last_idx;
				let part = w.part;
				let _ = std::fs::remove_file(&w.progress_path);
				workers.remove(i);
				if idx == u64::MAX {
					panic!("MACHINERY: worker {part} was lost before it started its first job: {why}");
				}
				if idx == WARMUP {
					// lost while exercising the fixed warm-up input: a finding of that input; this part is
					// not restarted (it would die the same way)
					let (case, desc) = describe(usize::MAX);
					merged.tally.bad(if why.contains("signal") { "abort-or-crash:warm-up" } else { "abnormal-exit:warm-up" }, case, format!("{desc}: {why}"));
					continue;
				}
				let (case, desc) = describe(idx as usize);
				let class = if why.contains("no progress") { "hang".to_string() } else if why.contains("signal") { format!("abort-or-crash:{}", why.split_whitespace().nth(4).unwrap_or("?").trim_end_matches(';')) } else { "abnormal-exit".into() };
				merged.tally.bad(class, case, format!("{desc}: {why}"));
				// every loss is already a recorded violation; after many of them the rest of the sweep
				// is abandoned (and reported as capped) instead of restarting workers for ever
				let next = idx as usize + nparts;
				if losses >= MAX_LOSSES {
					merged.tally.capped += 1;
					merged.tally.count("parts-abandoned-after-too-many-lost-workers");
				} else if next < njobs {
					workers.push(spawn(part, next));
				}
				continue;
			}
			i += 1;
		}
	}
	merged
}

/// Called at worker start: limit the address space so that a runaway allocation kills the worker
/// (a finding of the job in flight) instead of the machine.
pub fn limit_address_space(gib: u64) {
	if gib == 0 {
		return; // AddressSanitizer reserves terabytes of shadow address space
	}
	let lim = libc::rlimit { rlim_cur: gib << 30, rlim_max: gib << 30 };
	// SAFETY: plain setrlimit call with a valid struct.
	unsafe {
		libc::setrlimit(libc::RLIMIT_AS, &lim);
	}
}
