//! E4: process driver for the real xt binary — argv, stdin and stdout fixtures (pipe, regular file,
//! pseudo-terminal, /dev/full), LD_PRELOAD write-fault shim control, wait status collection.

use std::ffi::OsString;
use std::fs::File;
use std::io::{Read, Write};
use std::os::fd::{AsRawFd, FromRawFd, OwnedFd};
use std::os::unix::process::ExitStatusExt;
use std::path::{Path, PathBuf};
use std::process::{Command, Stdio};
use std::time::{Duration, Instant};

pub const BUILD: &str = "/verif/.build";

pub fn xt_bin(release: bool) -> PathBuf {
	PathBuf::from(format!("{BUILD}/xt-target/{}/xt", if release { "release" } else { "debug" }))
}

pub fn shim_path() -> PathBuf {
	PathBuf::from(format!("{BUILD}/wfault.so"))
}

#[derive(Clone, Debug)]
pub enum Stdin {
	Bytes(Vec<u8>),
	/// written packet by packet; the next packet is written only once xt has drained the pipe and is
	/// blocked in read(0, ..) again (a deterministic "bursty producer")
	Packets(Vec<Vec<u8>>),
	Null,
	File(PathBuf),
}

#[derive(Clone, Debug, PartialEq, Eq)]
pub enum Stdout {
	Pipe,
	File,
	Pty,
	DevFull,
	/// a pipe in O_NONBLOCK mode that is full to the last byte when xt starts and is drained only after
	/// xt has exited (every write xt attempts fails with EAGAIN)
	NonBlockFull,
}

#[derive(Clone, Debug, PartialEq, Eq)]
pub enum Exit {
	Code(i32),
	Signal(i32),
	Timeout,
}

impl std::fmt::Display for Exit {
	fn fmt(&self, f: &mut std::fmt::Formatter<'_>) -> std::fmt::Result {
		match self {
			Exit::Code(c) => write!(f, "exit {c}"),
			Exit::Signal(s) => write!(f, "killed by signal {s}"),
			Exit::Timeout => write!(f, "timeout (killed by the harness)"),
		}
	}
}

#[derive(Clone, Debug)]
pub struct ProcOut {
	pub exit: Exit,
	pub stdout: Vec<u8>,
	pub stderr: Vec<u8>,
}

impl ProcOut {
	pub fn brief(&self) -> String {
		format!("{} stdout={} stderr={}", self.exit, crate::util::show(&self.stdout), crate::util::show(&self.stderr))
	}
}

pub struct Spawn {
	pub release: bool,
	pub args: Vec<OsString>,
	pub cwd: PathBuf,
	pub stdin: Stdin,
	pub stdout: Stdout,
	pub env: Vec<(String, String)>,
	pub timeout: Duration,
	/// SIGPIPE is blocked in the signal mask xt inherits
	pub block_sigpipe: bool,
}

impl Spawn {
	pub fn new(cwd: &Path, args: &[&str]) -> Spawn {
		Spawn {
			release: true,
			args: args.iter().map(OsString::from).collect(),
			cwd: cwd.to_path_buf(),
			stdin: Stdin::Null,
			stdout: Stdout::Pipe,
			env: vec![],
			timeout: Duration::from_secs(60),
			block_sigpipe: false,
		}
	}
}

fn openpty() -> (OwnedFd, OwnedFd) {
	let mut master = 0;
	let mut slave = 0;
	// SAFETY: plain libc call with valid out-pointers.
	let r = unsafe { libc::openpty(&mut master, &mut slave, std::ptr::null_mut(), std::ptr::null_mut(), std::ptr::null_mut()) };
	assert!(r == 0, "MACHINERY: openpty failed");
	// SAFETY: the descriptors were just returned by openpty.
	unsafe { (OwnedFd::from_raw_fd(master), OwnedFd::from_raw_fd(slave)) }
}

fn apply_sigmask(cmd: &mut Command, sp: &Spawn) {
	if sp.block_sigpipe {
		use std::os::unix::process::CommandExt;
		// SAFETY: the closure runs between fork and exec and only calls async-signal-safe functions.
		unsafe {
			cmd.pre_exec(|| {
				let mut set: libc::sigset_t = std::mem::zeroed();
				libc::sigemptyset(&mut set);
				libc::sigaddset(&mut set, libc::SIGPIPE);
				libc::sigprocmask(libc::SIG_BLOCK, &set, std::ptr::null_mut());
				Ok(())
			});
		}
	}
}

static FILE_SEQ: std::sync::atomic::AtomicU64 = std::sync::atomic::AtomicU64::new(0);

pub fn run(sp: &Spawn) -> ProcOut {
	let mut cmd = Command::new(xt_bin(sp.release));
	cmd.args(&sp.args).current_dir(&sp.cwd).stderr(Stdio::piped());
	cmd.env_remove("LD_PRELOAD");
	for (k, v) in &sp.env {
		cmd.env(k, v);
	}
	apply_sigmask(&mut cmd, sp);
	match &sp.stdin {
		Stdin::Bytes(_) | Stdin::Packets(_) => {
			cmd.stdin(Stdio::piped());
		}
		Stdin::Null => {
			cmd.stdin(Stdio::null());
		}
		Stdin::File(p) => {
			cmd.stdin(File::open(p).expect("MACHINERY: stdin fixture"));
		}
	}
	let mut nonblock: Option<(File, usize)> = None;
	let mut pty_master = None;
	let mut out_file = None;
	match sp.stdout {
		Stdout::Pipe => {
			cmd.stdout(Stdio::piped());
		}
		Stdout::File => {
			let p = sp.cwd.join(format!(".stdout-{}-{}", std::process::id(), FILE_SEQ.fetch_add(1, std::sync::atomic::Ordering::Relaxed)));
			cmd.stdout(File::create(&p).expect("MACHINERY: stdout file"));
			out_file = Some(p);
		}
		Stdout::Pty => {
			let (m, s) = openpty();
			cmd.stdout(Stdio::from(s));
			pty_master = Some(m);
		}
		Stdout::DevFull => {
			cmd.stdout(std::fs::OpenOptions::new().write(true).open("/dev/full").expect("MACHINERY: /dev/full"));
		}
		Stdout::NonBlockFull => {
			let mut fds = [0i32; 2];
			// SAFETY: plain pipe2 / fcntl / write calls on descriptors created here.
			unsafe {
				assert!(libc::pipe2(fds.as_mut_ptr(), libc::O_CLOEXEC) == 0, "MACHINERY: pipe2");
				let fl = libc::fcntl(fds[1], libc::F_GETFL);
				libc::fcntl(fds[1], libc::F_SETFL, fl | libc::O_NONBLOCK);
				let fl = libc::fcntl(fds[0], libc::F_GETFL);
				libc::fcntl(fds[0], libc::F_SETFL, fl | libc::O_NONBLOCK);
				let filler = [b'F'; 4096];
				let mut filled = 0usize;
				loop {
					let n = libc::write(fds[1], filler.as_ptr().cast(), filler.len());
					if n <= 0 {
						// the last page may take a shorter write
						let n1 = libc::write(fds[1], filler.as_ptr().cast(), 1);
						if n1 <= 0 {
							break;
						}
						filled += 1;
						continue;
					}
					filled += n as usize;
				}
				nonblock = Some((File::from(OwnedFd::from_raw_fd(fds[0])), filled));
				cmd.stdout(Stdio::from(OwnedFd::from_raw_fd(fds[1])));
			}
		}
	}
	let mut child = cmd.spawn().expect("MACHINERY: cannot spawn xt");
	drop(cmd); // closes our copies of the child's descriptors (pty slave, files)
	let pid = child.id();
	watchdog_register(pid, Instant::now() + sp.timeout);
	// small stdin goes straight into the pipe (capacity 64 KiB); larger input is fed from a thread
	let mut stdin_thread = None;
	if let Stdin::Bytes(b) = &sp.stdin {
		let mut pipe = child.stdin.take().unwrap();
		if b.len() <= 60_000 {
			let _ = pipe.write_all(b);
			drop(pipe);
		} else {
			let data = b.clone();
			stdin_thread = Some(std::thread::spawn(move || {
				let _ = pipe.write_all(&data);
			}));
		}
	}
	if let Stdin::Packets(packets) = &sp.stdin {
		let mut pipe = child.stdin.take().unwrap();
		let packets = packets.clone();
		stdin_thread = Some(std::thread::spawn(move || {
			let n = packets.len();
			for (pi, p) in packets.into_iter().enumerate() {
				if pipe.write_all(&p).is_err() {
					return;
				}
				if pi + 1 == n {
					break; // nothing follows: close the pipe right away
				}
				let start = Instant::now();
				loop {
					let mut pending: libc::c_int = 0;
					// SAFETY: FIONREAD on a pipe descriptor we own, with a valid out-pointer.
					unsafe {
						libc::ioctl(pipe.as_raw_fd(), libc::FIONREAD, &mut pending);
					}
					let sys = std::fs::read_to_string(format!("/proc/{pid}/syscall")).unwrap_or_default();
					let mut it = sys.split_whitespace();
					let blocked_in_read = it.next() == Some("0") && it.next() == Some("0x0");
					if (pending == 0 && blocked_in_read) || sys.is_empty() || start.elapsed() > Duration::from_secs(5) {
						break;
					}
					std::thread::sleep(Duration::from_micros(200));
				}
			}
		}));
	}
	// read stdout (pipe or pty master) and stderr concurrently with poll(2): either may be large
	let mut stdout = vec![];
	let mut stderr = vec![];
	{
		let out_file: Option<File> = child.stdout.take().map(|p| File::from(OwnedFd::from(p))).or_else(|| pty_master.map(File::from));
		let err_file: Option<File> = child.stderr.take().map(|p| File::from(OwnedFd::from(p)));
		let mut srcs: Vec<(File, bool)> = vec![];
		if let Some(f) = out_file {
			srcs.push((f, true));
		}
		if let Some(f) = err_file {
			srcs.push((f, false));
		}
		let mut buf = vec![0u8; 65536];
		while !srcs.is_empty() {
			let mut pfds: Vec<libc::pollfd> = srcs.iter().map(|(f, _)| libc::pollfd { fd: f.as_raw_fd(), events: libc::POLLIN, revents: 0 }).collect();
			// SAFETY: valid array of pollfd for the descriptors we own.
			let r = unsafe { libc::poll(pfds.as_mut_ptr(), pfds.len() as libc::nfds_t, 1000) };
			if r < 0 {
				continue;
			}
			let mut i = 0;
			while i < srcs.len() {
				if pfds[i].revents != 0 {
					match srcs[i].0.read(&mut buf) {
						Ok(0) | Err(_) => {
							srcs.remove(i);
							pfds.remove(i);
							continue;
						}
						Ok(n) => {
							let dst = if srcs[i].1 { &mut stdout } else { &mut stderr };
							// bound what is kept: nothing legitimate is larger than this
							if dst.len() < (256 << 20) {
								dst.extend_from_slice(&buf[..n]);
							}
						}
					}
				}
				i += 1;
			}
		}
	}
	let st = child.wait().expect("MACHINERY: wait");
	let timed_out = watchdog_unregister(pid);
	let exit = if timed_out {
		Exit::Timeout
	} else {
		match (st.code(), st.signal()) {
			(Some(c), _) => Exit::Code(c),
			(None, Some(s)) => Exit::Signal(s),
			_ => Exit::Code(-1),
		}
	};
	if let Some(t) = stdin_thread {
		let _ = t.join();
	}
	if let Some(p) = out_file {
		stdout = std::fs::read(&p).unwrap_or_default();
		let _ = std::fs::remove_file(&p);
	}
	if let Some((mut f, filled)) = nonblock {
		// only now is the pipe drained: first our own filler, then whatever xt managed to write
		let mut all = vec![];
		let mut buf = vec![0u8; 65536];
		while let Ok(n) = f.read(&mut buf) {
			if n == 0 {
				break;
			}
			all.extend_from_slice(&buf[..n]);
		}
		stdout = all.split_off(filled.min(all.len()));
	}
	ProcOut { exit, stdout, stderr }
}

static WATCH: std::sync::Mutex<Vec<(u32, Instant, bool)>> = std::sync::Mutex::new(Vec::new());
static WATCH_STARTED: std::sync::Once = std::sync::Once::new();

fn watchdog_register(pid: u32, deadline: Instant) {
	WATCH_STARTED.call_once(|| {
		std::thread::spawn(|| loop {
			std::thread::sleep(Duration::from_millis(100));
			let now = Instant::now();
			for e in WATCH.lock().unwrap().iter_mut() {
				if !e.2 && now > e.1 {
					e.2 = true;
					// SAFETY: plain kill(2) on a child we spawned and have not reaped yet.
					unsafe {
						libc::kill(e.0 as i32, libc::SIGKILL);
					}
				}
			}
		});
	});
	WATCH.lock().unwrap().push((pid, deadline, false));
}

/// Returns true when the watchdog had to kill the process.
fn watchdog_unregister(pid: u32) -> bool {
	let mut w = WATCH.lock().unwrap();
	let i = w.iter().position(|e| e.0 == pid).expect("registered pid");
	w.swap_remove(i).2
}

/// A private scratch directory under /verif/.work, removed on drop.
pub struct WorkDir(pub PathBuf);

impl WorkDir {
	pub fn new(tag: &str) -> WorkDir {
		let p = PathBuf::from(format!("/verif/.work/{tag}-{}", std::process::id()));
		// scratch directories of earlier runs that were killed before they could clean up (their pid is gone)
		if let Ok(rd) = std::fs::read_dir("/verif/.work") {
			for e in rd.flatten() {
				let name = e.file_name().to_string_lossy().into_owned();
				if let Some(pid) = name.strip_prefix(&format!("{tag}-")).and_then(|r| r.parse::<u32>().ok()) {
					if !std::path::Path::new(&format!("/proc/{pid}")).exists() {
						let _ = std::fs::remove_dir_all(e.path());
					}
				}
			}
		}
		let _ = std::fs::remove_dir_all(&p);
		std::fs::create_dir_all(&p).expect("MACHINERY: cannot create work dir");
		WorkDir(p)
	}
	pub fn write(&self, name: &str, data: &[u8]) -> PathBuf {
		let p = self.0.join(name);
		std::fs::write(&p, data).expect("MACHINERY: cannot write fixture");
		p
	}
	pub fn path(&self) -> &Path {
		&self.0
	}
}

impl Drop for WorkDir {
	fn drop(&mut self) {
		let _ = std::fs::remove_dir_all(&self.0);
	}
}

pub fn assert_bins() {
	for r in [false, true] {
		assert!(xt_bin(r).exists(), "MACHINERY: {} is missing (run /verif/check setup)", xt_bin(r).display());
	}
}

pub fn mkfifo(p: &Path) {
	let c = std::ffi::CString::new(p.as_os_str().as_encoded_bytes()).unwrap();
	// SAFETY: valid C string.
	let r = unsafe { libc::mkfifo(c.as_ptr(), 0o600) };
	assert!(r == 0, "MACHINERY: mkfifo failed");
}

pub fn raw_fd<T: AsRawFd>(t: &T) -> i32 {
	t.as_raw_fd()
}

/// Runs xt with stdout connected to a pipe of the given capacity whose consumer (the harness) takes
/// exactly `take` bytes, waits until xt is provably blocked in write(1, ..) (or has exited), and then
/// closes the read end. `take == usize::MAX` closes the read end before xt starts.
pub fn run_with_leaving_consumer(sp: &Spawn, capacity: i32, take: usize) -> (ProcOut, bool) {
	let mut fds = [0i32; 2];
	// SAFETY: plain pipe2 call with a valid array.
	assert!(unsafe { libc::pipe2(fds.as_mut_ptr(), libc::O_CLOEXEC) } == 0, "MACHINERY: pipe2");
	// SAFETY: descriptors just created.
	let (rd, wr) = unsafe { (OwnedFd::from_raw_fd(fds[0]), OwnedFd::from_raw_fd(fds[1])) };
	if capacity > 0 {
		// SAFETY: fcntl on a descriptor we own.
		let got = unsafe { libc::fcntl(wr.as_raw_fd(), libc::F_SETPIPE_SZ, capacity) };
		assert!(got >= capacity, "MACHINERY: F_SETPIPE_SZ");
	}
	let mut cmd = Command::new(xt_bin(sp.release));
	cmd.args(&sp.args).current_dir(&sp.cwd).stderr(Stdio::piped()).stdout(Stdio::from(wr));
	apply_sigmask(&mut cmd, sp);
	cmd.env_remove("LD_PRELOAD");
	for (k, v) in &sp.env {
		cmd.env(k, v);
	}
	match &sp.stdin {
		Stdin::Bytes(_) | Stdin::Packets(_) => {
			cmd.stdin(Stdio::piped());
		}
		Stdin::Null => {
			cmd.stdin(Stdio::null());
		}
		Stdin::File(p) => {
			cmd.stdin(File::open(p).expect("MACHINERY: stdin fixture"));
		}
	}
	let mut rd = Some(File::from(rd));
	let pipe_name = {
		use std::os::unix::fs::MetadataExt;
		format!("pipe:[{}]", rd.as_ref().unwrap().metadata().map(|m| m.ino()).unwrap_or(0))
	};
	if take == usize::MAX {
		rd = None; // the consumer is gone before xt starts
	}
	let mut child = cmd.spawn().expect("MACHINERY: cannot spawn xt");
	drop(cmd);
	let pid = child.id();
	watchdog_register(pid, Instant::now() + sp.timeout);
	let stdin_thread = if let Stdin::Bytes(b) = &sp.stdin {
		let mut pipe = child.stdin.take().unwrap();
		let data = b.clone();
		Some(std::thread::spawn(move || {
			let _ = pipe.write_all(&data);
		}))
	} else {
		None
	};
	let mut taken = vec![];
	let mut blocked = false;
	if let Some(f) = rd.as_mut() {
		let mut buf = vec![0u8; 65536];
		while taken.len() < take {
			let want = (take - taken.len()).min(buf.len());
			match f.read(&mut buf[..want]) {
				Ok(0) | Err(_) => break,
				Ok(n) => taken.extend_from_slice(&buf[..n]),
			}
		}
		// wait until xt is blocked in write(1, ...) or gone
		let start = Instant::now();
		loop {
			let sys = std::fs::read_to_string(format!("/proc/{pid}/syscall")).unwrap_or_default();
			let stat = std::fs::read_to_string(format!("/proc/{pid}/stat")).unwrap_or_default();
			let state = stat.rsplit(')').next().and_then(|r| r.split_whitespace().next()).unwrap_or("").to_string();
			// blocked in write(fd, ...) where fd is descriptor 1 or any other descriptor for our pipe
			let mut it = sys.split_whitespace();
			if it.next() == Some("1") && state == "S" {
				let fd = it.next().and_then(|a| u64::from_str_radix(a.trim_start_matches("0x"), 16).ok());
				let on_pipe = fd.is_some_and(|fd| fd == 1 || std::fs::read_link(format!("/proc/{pid}/fd/{fd}")).is_ok_and(|l| l.to_string_lossy() == pipe_name));
				if on_pipe {
					blocked = true;
					break;
				}
			}
			if state == "Z" || state.is_empty() || start.elapsed() > Duration::from_secs(10) {
				break;
			}
			std::thread::sleep(Duration::from_micros(200));
		}
	}
	drop(rd); // the consumer leaves
	let mut stderr = vec![];
	if let Some(mut p) = child.stderr.take() {
		let _ = p.read_to_end(&mut stderr);
	}
	let st = child.wait().expect("MACHINERY: wait");
	let timed_out = watchdog_unregister(pid);
	if let Some(t) = stdin_thread {
		let _ = t.join();
	}
	let exit = if timed_out {
		Exit::Timeout
	} else {
		match (st.code(), st.signal()) {
			(Some(c), _) => Exit::Code(c),
			(None, Some(s)) => Exit::Signal(s),
			_ => Exit::Code(-1),
		}
	};
	(ProcOut { exit, stdout: taken, stderr }, blocked)
}
