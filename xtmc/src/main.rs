//! xtmc: bounded exhaustive exploration of the real xt code. See /verif/DESIGN.md.

#![allow(dead_code)]
mod alloc;
mod checks;
mod env;
mod gen;
mod isolate;
mod model;
mod proc;
mod report;
mod run;
mod spell;
mod tomlcheck;
mod vals;
mod util;
mod yamlread;

use std::time::Instant;

#[global_allocator]
static GLOBAL: alloc::Counting = alloc::Counting;

fn usage() -> ! {
	eprintln!("usage: xtmc <C01..C18> <quick|thorough>\n       xtmc replay <file>");
	std::process::exit(2);
}

fn main() {
	run::install_panic_hook();
	let args: Vec<String> = std::env::args().collect();
	if args.len() < 3 {
		usage();
	}
	if args[1] == "dbg-strings" {
		let to = run::F::parse(&args[2]).unwrap();
		let mut fam = vals::string_family();
		fam.extend(vals::all_scalar_strings(1));
		for s in fam {
			let v = model::V::Arr(vec![model::V::s(&s)]);
			let input = spell::spell_doc(run::F::Msgpack, &v, spell::Style(0)).unwrap();
			let o = run::run_slice(&input, Some(run::F::Msgpack), to);
			let d = checks::common::read_output_dumps(to, &o.out);
			if !o.ok || d.as_ref().ok() != Some(&vec![v.dump()]) {
				println!("{:?} -> ok={} out={} read={:?}", s, o.ok, util::show(&o.out), d);
			}
		}
		return;
	}
	if args[1] == "worker" {
		// worker <check> <tier> <part> <nparts> <start> <progress>
		let n = |i: usize| args[i].parse::<usize>().expect("worker argument");
		let r = std::panic::catch_unwind(|| checks::worker(&args[2], &args[3], n(4), n(5), n(6), &args[7]));
		if r.is_err() {
			eprintln!("MACHINERY: worker panicked outside a job: {}", run::take_panic().unwrap_or_default());
			std::process::exit(3);
		}
		return;
	}
	if args[1] == "c17-probe" {
		checks::c17::probe(&args[2]);
		return;
	}
	if args[1] == "c17-one" {
		std::process::exit(checks::c17::one(&args[2]));
	}
	if args[1] == "replay" {
		std::process::exit(checks::replay_file(&args[2]));
	}
	let id = args[1].to_uppercase();
	let tier = std::env::var("VERIF_TIER").ok().filter(|t| t == "quick" || t == "thorough").unwrap_or(args[2].clone());
	let tier = if args[2] == "quick" || args[2] == "thorough" { args[2].clone() } else { tier };
	let seed = std::env::var("VERIF_SEED").ok().and_then(|s| s.parse::<i64>().ok()).unwrap_or(0).unsigned_abs();
	let ctx = report::Ctx { id: id.clone(), tier, seed, start: Instant::now() };
	let out = match checks::run(&ctx) {
		Some(o) => o,
		None => {
			eprintln!("unknown check {id}");
			std::process::exit(2);
		}
	};
	std::process::exit(report::finish(&ctx, out));
}
