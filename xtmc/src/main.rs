//! xtmc: bounded exhaustive exploration of the real xt code. See /verif/DESIGN.md.

#![allow(dead_code)]
mod alloc;
mod checks;
mod env;
mod gen;
mod isolate;
mod model;
mod proc;
mod report;
mod run;
mod spell;
mod tomlcheck;
mod vals;
mod util;
mod yamlread;

use std::time::Instant;

#[global_allocator]
static GLOBAL: alloc::Counting = alloc::Counting;

fn usage() -> ! {
	eprintln!("usage: xtmc <C01..C18> <quick|thorough>\n       xtmc replay <file>");
	std::process::exit(2);
}

fn supervise(id: &str, tier: &str, seed: u64, args: &[String]) -> i32 {
	use std::io::Read;
	use std::os::unix::process::ExitStatusExt;
	let start = Instant::now();
	let mut child = std::process::Command::new(std::env::current_exe().expect("current_exe"))
		.args(&args[1..])
		.env("XTMC_CHILD", "1")
		.stderr(std::process::Stdio::piped())
		.spawn()
		.expect("MACHINERY: cannot spawn the check process");
	let mut err = child.stderr.take().unwrap();
	let t = std::thread::spawn(move || {
		let mut keep: Vec<u8> = vec![];
		let mut buf = [0u8; 8192];
		loop {
			match err.read(&mut buf) {
				Ok(0) | Err(_) => break,
				Ok(n) => {
					// pass through and remember the tail
					let _ = std::io::Write::write_all(&mut std::io::stderr(), &buf[..n]);
					keep.extend_from_slice(&buf[..n]);
					if keep.len() > 16384 {
						keep.drain(..keep.len() - 8192);
					}
				}
			}
		}
		keep
	});
	let st = child.wait().expect("MACHINERY: wait");
	let tail = String::from_utf8_lossy(&t.join().unwrap_or_default()).to_string();
	if let Some(code) = st.code() {
		return code;
	}
	let sig = st.signal().unwrap_or(0);
	if sig == libc::SIGKILL || sig == libc::SIGTERM || sig == libc::SIGINT {
		eprintln!("MACHINERY ERROR: the check process was killed from outside (signal {sig})");
		return 2;
	}
	// SIGABRT / SIGSEGV / SIGBUS / SIGILL / SIGFPE: raised by the code under test
	let lines: Vec<&str> = tail.lines().rev().take(12).collect::<Vec<_>>().into_iter().rev().collect();
	let detail = format!("the check process was killed by signal {sig} while exercising xt in-process (abort of a non-unwinding panic, stack overflow or undefined behaviour); last stderr lines: {}", lines.join(" | "));
	let ctx = report::Ctx { id: id.to_string(), tier: tier.to_string(), seed, start };
	let mut tally = report::Tally::default();
	tally.evaluations = 1;
	tally.distinct.insert(1);
	tally.distinct.insert(2);
	tally.states = 1;
	tally.transitions = 1;
	tally.samples.push(serde_json::json!("(the run was cut short by the crash; no coverage is claimed)"));
	tally.bad(format!("check-process-killed-by-signal-{sig}"), serde_json::json!({"kind": "crash", "signal": sig, "stderr_tail": lines}), detail);
	let out = report::CheckOutput {
		level: "exploration",
		tally,
		rule: "the run was cut short: the check process died on a signal raised inside the code under test".into(),
		exhaustive: false,
		bounds: serde_json::json!({}),
		assumptions: vec![],
		required: vec![],
		extra: Default::default(),
	};
	report::finish(&ctx, out)
}

fn main() {
	run::install_panic_hook();
	let args: Vec<String> = std::env::args().collect();
	if args.len() < 2 || (args.len() < 3 && args[1] != "c17-miri") {
		usage();
	}
	if args[1] == "dbg-fault" {
		// dbg-fault <format> <size> <k>...: a single "p: zzz" style document of about <size> bytes, detected, reader failing after k bytes
		let f = run::F::parse(&args[2]).unwrap();
		let size: usize = args[3].parse().unwrap();
		let z = "z".repeat(size);
		let input = match f {
			run::F::Json => format!("{{\"p\":\"{z}\"}}\n").into_bytes(),
			run::F::Yaml => format!("p: {z}\n").into_bytes(),
			run::F::Toml => format!("p = \"{z}\"\n").into_bytes(),
			run::F::Msgpack => {
				let mut mp = vec![0x81, 0xa1, b'p', 0xdb];
				mp.extend((size as u32).to_be_bytes());
				mp.extend(z.as_bytes());
				mp
			}
		};
		for k in &args[4..] {
			let k: usize = if k == "len" { input.len() } else { k.parse().unwrap() };
			for from in [Some(f), None] {
				let r = run::run_reader(env::FailAtReader::new(&input, k, 0), from, run::F::Json);
				println!("{} size {} k {} from {:?}: ok={} err={:?} out={} bytes", f.name(), input.len(), k, from.map(|f| f.name()), r.ok, r.err, r.out.len());
			}
		}
		return;
	}
	if args[1] == "dbg-strings" {
		let to = run::F::parse(&args[2]).unwrap();
		let mut fam = vals::string_family();
		fam.extend(vals::all_scalar_strings(1));
		for s in fam {
			let v = model::V::Arr(vec![model::V::s(&s)]);
			let input = spell::spell_doc(run::F::Msgpack, &v, spell::Style(0)).unwrap();
			let o = run::run_slice(&input, Some(run::F::Msgpack), to);
			let d = checks::common::read_output_dumps(to, &o.out);
			if !o.ok || d.as_ref().ok() != Some(&vec![v.dump()]) {
				println!("{:?} -> ok={} out={} read={:?}", s, o.ok, util::show(&o.out), d);
			}
		}
		return;
	}
	if args[1] == "worker" {
		// worker <check> <tier> <part> <nparts> <start> <progress>
		let n = |i: usize| args[i].parse::<usize>().expect("worker argument");
		let r = std::panic::catch_unwind(|| checks::worker(&args[2], &args[3], n(4), n(5), n(6), &args[7]));
		if r.is_err() {
			eprintln!("MACHINERY: worker panicked outside a job: {}", run::take_panic().unwrap_or_default());
			std::process::exit(3);
		}
		return;
	}
	if args[1] == "c17-miri" {
		checks::c17::miri_pass();
		return;
	}
	if args[1] == "c17-probe" {
		checks::c17::probe(&args[2]);
		return;
	}
	if args[1] == "c17-one" {
		std::process::exit(checks::c17::one(&args[2]));
	}
	if args[1] == "replay" {
		std::process::exit(checks::replay_file(&args[2]));
	}
	let id = args[1].to_uppercase();
	let tier = std::env::var("VERIF_TIER").ok().filter(|t| t == "quick" || t == "thorough").unwrap_or(args[2].clone());
	let tier = if args[2] == "quick" || args[2] == "thorough" { args[2].clone() } else { tier };
	let seed = std::env::var("VERIF_SEED").ok().and_then(|s| s.parse::<i64>().ok()).unwrap_or(0).unsigned_abs();
	// Supervisor: the check itself runs in a child process. If that child is killed by a signal
	// (abort from a non-unwinding panic, SIGSEGV from a stack overflow or undefined behaviour) while it
	// exercises xt in-process, that is a property-relevant event, not a machinery failure.
	if std::env::var_os("XTMC_CHILD").is_none() && std::env::var_os("XTMC_NO_SUPERVISOR").is_none() {
		std::process::exit(supervise(&id, &tier, seed, &args));
	}
	let ctx = report::Ctx { id: id.clone(), tier, seed, start: Instant::now() };
	let out = match checks::run(&ctx) {
		Some(o) => o,
		None => {
			eprintln!("unknown check {id}");
			std::process::exit(2);
		}
	};
	std::process::exit(report::finish(&ctx, out));
}
