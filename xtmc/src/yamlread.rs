//! Independent YAML reader: libyaml *parser* events driven directly by the harness, plus the
//! harness's own YAML 1.2 core-schema resolver. serde_yaml's typing logic is not involved.

use std::collections::HashMap;
use std::mem::MaybeUninit;

use unsafe_libyaml::*;

use crate::model::V;

#[derive(Clone, Debug, PartialEq)]
pub enum Ev {
	StreamStart,
	StreamEnd,
	DocStart { implicit: bool, start: u64 },
	DocEnd { implicit: bool, end: u64 },
	Alias(String),
	Scalar { anchor: Option<String>, tag: Option<String>, value: Vec<u8>, plain: bool },
	SeqStart { anchor: Option<String>, tag: Option<String> },
	SeqEnd,
	MapStart { anchor: Option<String>, tag: Option<String> },
	MapEnd,
}

unsafe fn cstr(p: *const u8) -> Option<String> {
	if p.is_null() {
		return None;
	}
	let mut n = 0;
	while *p.add(n) != 0 {
		n += 1;
	}
	Some(String::from_utf8_lossy(std::slice::from_raw_parts(p, n)).into_owned())
}

/// Parses `input` (UTF-8) into events; Err carries libyaml's problem text.
pub fn events(input: &[u8]) -> Result<Vec<Ev>, String> {
	match events_partial(input) {
		(ev, None) => Ok(ev),
		(_, Some(e)) => Err(e),
	}
}

/// Like `events`, but keeps the events seen before an error.
pub fn events_partial(input: &[u8]) -> (Vec<Ev>, Option<String>) {
	let mut out = vec![];
	// SAFETY: plain use of the libyaml API on a string input that outlives the parser.
	unsafe {
		let mut parser = Box::new(MaybeUninit::<yaml_parser_t>::uninit());
		if yaml_parser_initialize(parser.as_mut_ptr()).fail {
			panic!("MACHINERY: yaml_parser_initialize failed");
		}
		let p = parser.as_mut_ptr();
		yaml_parser_set_encoding(p, yaml_encoding_t::YAML_UTF8_ENCODING);
		yaml_parser_set_input_string(p, input.as_ptr(), input.len() as u64);
		loop {
			let mut ev = MaybeUninit::<yaml_event_t>::uninit();
			if yaml_parser_parse(p, ev.as_mut_ptr()).fail {
				let problem = (&(*p)).problem;
				let msg = cstr(problem.cast::<u8>()).unwrap_or_else(|| "unknown".into());
				yaml_parser_delete(p);
				return (out, Some(msg));
			}
			let e = ev.assume_init_mut();
			let mut done = false;
			match e.type_ {
				yaml_event_type_t::YAML_STREAM_START_EVENT => out.push(Ev::StreamStart),
				yaml_event_type_t::YAML_STREAM_END_EVENT => {
					out.push(Ev::StreamEnd);
					done = true;
				}
				yaml_event_type_t::YAML_DOCUMENT_START_EVENT => out.push(Ev::DocStart {
					implicit: e.data.document_start.implicit,
					start: e.start_mark.index,
				}),
				yaml_event_type_t::YAML_DOCUMENT_END_EVENT => {
					out.push(Ev::DocEnd { implicit: e.data.document_end.implicit, end: e.end_mark.index })
				}
				yaml_event_type_t::YAML_ALIAS_EVENT => {
					out.push(Ev::Alias(cstr(e.data.alias.anchor).unwrap_or_default()))
				}
				yaml_event_type_t::YAML_SCALAR_EVENT => {
					let s = e.data.scalar;
					let value = std::slice::from_raw_parts(s.value, s.length as usize).to_vec();
					out.push(Ev::Scalar {
						anchor: cstr(s.anchor),
						tag: cstr(s.tag),
						value,
						plain: s.style == yaml_scalar_style_t::YAML_PLAIN_SCALAR_STYLE,
					});
				}
				yaml_event_type_t::YAML_SEQUENCE_START_EVENT => out.push(Ev::SeqStart {
					anchor: cstr(e.data.sequence_start.anchor),
					tag: cstr(e.data.sequence_start.tag),
				}),
				yaml_event_type_t::YAML_SEQUENCE_END_EVENT => out.push(Ev::SeqEnd),
				yaml_event_type_t::YAML_MAPPING_START_EVENT => out.push(Ev::MapStart {
					anchor: cstr(e.data.mapping_start.anchor),
					tag: cstr(e.data.mapping_start.tag),
				}),
				yaml_event_type_t::YAML_MAPPING_END_EVENT => out.push(Ev::MapEnd),
				_ => {}
			}
			yaml_event_delete(ev.as_mut_ptr());
			if done {
				break;
			}
		}
		yaml_parser_delete(p);
	}
	(out, None)
}

/// True when a YAML reader sees a first document that is a collection and is followed by a clean
/// document boundary (the next document's start or the end of the stream).
pub fn first_document_is_clean_collection(input: &[u8]) -> bool {
	if std::str::from_utf8(input).is_err() {
		return false;
	}
	let (ev, _) = events_partial(input);
	let mut i = 0;
	while i < ev.len() && !matches!(ev[i], Ev::DocStart { .. }) {
		i += 1;
	}
	if i + 1 >= ev.len() || !matches!(ev[i + 1], Ev::SeqStart { .. } | Ev::MapStart { .. }) {
		return false;
	}
	let mut j = i + 1;
	while j < ev.len() && !matches!(ev[j], Ev::DocEnd { .. }) {
		j += 1;
	}
	j + 1 < ev.len() && matches!(ev[j + 1], Ev::DocStart { .. } | Ev::StreamEnd)
}

/// Number of documents libyaml sees, or None when the stream is malformed.
pub fn document_count(input: &[u8]) -> Option<usize> {
	events(input).ok().map(|e| e.iter().filter(|x| matches!(x, Ev::DocStart { .. })).count())
}

fn all_digits(s: &str) -> bool {
	!s.is_empty() && s.bytes().all(|c| c.is_ascii_digit())
}

/// YAML 1.2 core schema resolution of a plain scalar.
pub fn resolve_plain(s: &str) -> V {
	match s {
		"" | "~" | "null" | "Null" | "NULL" => return V::Null,
		"true" | "True" | "TRUE" => return V::Bool(true),
		"false" | "False" | "FALSE" => return V::Bool(false),
		".nan" | ".NaN" | ".NAN" => return V::Float(f64::NAN.to_bits()),
		".inf" | ".Inf" | ".INF" | "+.inf" | "+.Inf" | "+.INF" => return V::Float(f64::INFINITY.to_bits()),
		"-.inf" | "-.Inf" | "-.INF" => return V::Float(f64::NEG_INFINITY.to_bits()),
		_ => {}
	}
	let body = s.strip_prefix(['-', '+']).unwrap_or(s);
	if all_digits(body) {
		return match s.strip_prefix('+').unwrap_or(s).parse::<i128>() {
			Ok(i) if i >= -(1i128 << 63) && i < (1i128 << 64) => V::Int(i),
			_ => V::Other(format!("bigint:{s}")),
		};
	}
	if let Some(o) = s.strip_prefix("0o") {
		if !o.is_empty() && o.bytes().all(|c| (b'0'..=b'7').contains(&c)) {
			return match i128::from_str_radix(o, 8) {
				Ok(i) if i < (1i128 << 64) => V::Int(i),
				_ => V::Other(format!("bigint:{s}")),
			};
		}
	}
	if let Some(h) = s.strip_prefix("0x") {
		if !h.is_empty() && h.bytes().all(|c| c.is_ascii_hexdigit()) {
			return match i128::from_str_radix(h, 16) {
				Ok(i) if i < (1i128 << 64) => V::Int(i),
				_ => V::Other(format!("bigint:{s}")),
			};
		}
	}
	// float: [-+]? ( \. [0-9]+ | [0-9]+ ( \. [0-9]* )? ) ( [eE] [-+]? [0-9]+ )?
	let (mant, exp) = match body.find(['e', 'E']) {
		Some(i) => (&body[..i], Some(&body[i + 1..])),
		None => (body, None),
	};
	let mant_ok = if let Some(frac) = mant.strip_prefix('.') {
		all_digits(frac)
	} else {
		match mant.find('.') {
			Some(i) => all_digits(&mant[..i]) && mant[i + 1..].bytes().all(|c| c.is_ascii_digit()),
			None => all_digits(mant),
		}
	};
	let exp_ok = match exp {
		None => true,
		Some(e) => all_digits(e.strip_prefix(['-', '+']).unwrap_or(e)),
	};
	if mant_ok && exp_ok {
		if let Ok(f) = s.strip_prefix('+').unwrap_or(s).parse::<f64>() {
			return V::Float(f.to_bits());
		}
	}
	V::Str(s.to_string())
}

fn scalar_value(tag: &Option<String>, value: &[u8], plain: bool) -> Result<V, String> {
	let text = String::from_utf8(value.to_vec()).map_err(|_| "yaml: scalar is not UTF-8".to_string())?;
	match tag.as_deref() {
		None | Some("?") => Ok(if plain { resolve_plain(&text) } else { V::Str(text) }),
		Some("!") | Some("tag:yaml.org,2002:str") => Ok(V::Str(text)),
		Some("tag:yaml.org,2002:null") => Ok(V::Null),
		Some("tag:yaml.org,2002:bool") | Some("tag:yaml.org,2002:int") | Some("tag:yaml.org,2002:float") => {
			Ok(resolve_plain(&text))
		}
		Some("tag:yaml.org,2002:binary") => Ok(V::Other(format!("binary:{text}"))),
		Some(t) => Ok(V::Other(format!("tag:{t}:{text}"))),
	}
}

struct Builder<'a> {
	ev: &'a [Ev],
	i: usize,
	anchors: HashMap<String, V>,
	budget: usize,
}

impl Builder<'_> {
	fn node(&mut self) -> Result<V, String> {
		let e = self.ev.get(self.i).ok_or("yaml: unexpected end of events")?.clone();
		self.i += 1;
		if self.budget == 0 {
			return Err("yaml: node budget exceeded".into());
		}
		self.budget -= 1;
		match e {
			Ev::Alias(a) => {
				let v = self.anchors.get(&a).cloned().ok_or(format!("yaml: unknown anchor {a}"))?;
				let n = v.nodes();
				if n > self.budget {
					return Err("yaml: node budget exceeded".into());
				}
				self.budget -= n;
				Ok(v)
			}
			Ev::Scalar { anchor, tag, value, plain } => {
				let v = scalar_value(&tag, &value, plain)?;
				if let Some(a) = anchor {
					self.anchors.insert(a, v.clone());
				}
				Ok(v)
			}
			Ev::SeqStart { anchor, .. } => {
				let mut items = vec![];
				while self.ev.get(self.i) != Some(&Ev::SeqEnd) {
					items.push(self.node()?);
				}
				self.i += 1;
				let v = V::Arr(items);
				if let Some(a) = anchor {
					self.anchors.insert(a, v.clone());
				}
				Ok(v)
			}
			Ev::MapStart { anchor, .. } => {
				let mut items = vec![];
				while self.ev.get(self.i) != Some(&Ev::MapEnd) {
					let k = self.node()?;
					let v = self.node()?;
					items.push((k, v));
				}
				self.i += 1;
				let v = V::Map(items);
				if let Some(a) = anchor {
					self.anchors.insert(a, v.clone());
				}
				Ok(v)
			}
			other => Err(format!("yaml: unexpected event {other:?}")),
		}
	}
}

#[derive(Clone, Debug)]
pub struct YDoc {
	pub value: V,
	pub explicit_start: bool,
	pub start: u64,
	pub end: u64,
}

/// Reads a whole YAML stream into its documents.
pub fn read_yaml_stream(input: &[u8]) -> Result<Vec<YDoc>, String> {
	let ev = events(input)?;
	let mut docs = vec![];
	let mut b = Builder { ev: &ev, i: 0, anchors: HashMap::new(), budget: 2_000_000 };
	while b.i < ev.len() {
		match &ev[b.i] {
			Ev::StreamStart | Ev::StreamEnd => b.i += 1,
			Ev::DocStart { implicit, start } => {
				let (implicit, start) = (*implicit, *start);
				b.i += 1;
				b.anchors.clear();
				let value = b.node()?;
				let end = match ev.get(b.i) {
					Some(Ev::DocEnd { end, .. }) => *end,
					other => return Err(format!("yaml: expected document end, got {other:?}")),
				};
				b.i += 1;
				docs.push(YDoc { value, explicit_start: !implicit, start, end });
			}
			other => return Err(format!("yaml: unexpected top-level event {other:?}")),
		}
	}
	Ok(docs)
}

/// xt's YAML framing: every document is introduced by its own `---` line.
pub fn read_xt_yaml_output(out: &[u8]) -> Result<Vec<V>, String> {
	let docs = read_yaml_stream(out)?;
	for d in &docs {
		if !d.explicit_start {
			return Err("yaml output has a document without '---'".into());
		}
		let s = d.start as usize;
		if !(out[s..].starts_with(b"---\n") || out[s..].starts_with(b"--- ")) || (s > 0 && out[s - 1] != b'\n') {
			return Err("yaml output document does not start with a '---' line".into());
		}
	}
	Ok(docs.into_iter().map(|d| d.value).collect())
}
