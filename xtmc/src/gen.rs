//! E3: bounded-exhaustive generators (token sequences, seeds, edits).

use crate::run::F;
use std::collections::HashSet;

pub fn alphabet(f: F) -> Vec<Vec<u8>> {
	let strs: Vec<&[u8]> = match f {
		F::Json => vec![
			b"{", b"}", b"[", b"]", b",", b":", b"true", b"null", b"1", b"-1.5e0", b"\"a\"", b"\"\"",
			"\"\u{e9}\"".as_bytes(), b" ", b"\n",
		],
		F::Yaml => vec![
			b"---", b"...", b"\n", b" ", b"a", b":", b"- ", b"[", b"]", b"{", b"}", b",", b"#c", b"\"q\"",
			b"'s'", b"&x ", b"*x", b"|", b">", b"!t ", b"%YAML 1.2", b"? ", b"\t", "\u{feff}".as_bytes(),
		],
		F::Msgpack => {
			return [
				0xc0u8, 0xc2, 0xc3, 0x00, 0x7f, 0xff, 0xe0, 0xcc, 0xcd, 0xce, 0xcf, 0xd0, 0xd1, 0xd2, 0xd3, 0xca,
				0xcb, 0xa0, 0xa1, 0xd9, 0xda, 0xdb, 0xc4, 0xc5, 0xc6, 0x90, 0x91, 0x92, 0xdc, 0xdd, 0x80, 0x81,
				0x82, 0xde, 0xdf, 0xc1, 0xd4, 0xc7, 0x01, 0x61,
			]
			.iter()
			.map(|&b| vec![b])
			.collect()
		}
		F::Toml => vec![
			b"a", b"=", b"1", b"1.5", b"\"s\"", b"'s'", b"[", b"]", b"[[", b"]]", b".", b",", b"{", b"}", b"\n",
			b" ", b"#c", b"true", b"1979-05-27", b"\"\"\"", b"b",
		],
	};
	strs.into_iter().map(<[u8]>::to_vec).collect()
}

/// All concatenations of 0..=k tokens, deduplicated by resulting bytes, shortest first.
pub fn token_seqs(alpha: &[Vec<u8>], k: usize) -> Vec<Vec<u8>> {
	let mut out: Vec<Vec<u8>> = vec![vec![]];
	let mut seen: HashSet<Vec<u8>> = HashSet::new();
	seen.insert(vec![]);
	let mut layer: Vec<Vec<u8>> = vec![vec![]];
	for _ in 0..k {
		let mut next = Vec::with_capacity(layer.len() * alpha.len());
		for s in &layer {
			for t in alpha {
				let mut v = s.clone();
				v.extend_from_slice(t);
				if seen.insert(v.clone()) {
					next.push(v);
				}
			}
		}
		out.extend(next.iter().cloned());
		layer = next;
	}
	out
}

/// All byte strings of length <= n.
pub fn all_bytes(n: usize) -> Vec<Vec<u8>> {
	let mut out = vec![vec![]];
	let mut layer: Vec<Vec<u8>> = vec![vec![]];
	for _ in 0..n {
		let mut next = Vec::with_capacity(layer.len() * 256);
		for s in &layer {
			for b in 0..=255u8 {
				let mut v = s.clone();
				v.push(b);
				next.push(v);
			}
		}
		out.extend(next.iter().cloned());
		layer = next;
	}
	out
}

fn repo_file(name: &str) -> Vec<u8> {
	std::fs::read(format!("/repo/tests/{name}")).unwrap_or_else(|e| panic!("MACHINERY: cannot read /repo/tests/{name}: {e}"))
}

/// Hand-written seeds plus the repository's own test inputs.
pub fn seeds(f: F) -> Vec<Vec<u8>> {
	let mut v: Vec<Vec<u8>> = vec![];
	match f {
		F::Json => {
			v.push(repo_file("single.json"));
			v.push(repo_file("multi.json"));
			v.push(repo_file("single_reordered.json"));
			for s in [
				"{\"a\":1,\"b\":[true,null,\"x\"],\"c\":{\"d\":-2.5e3}}\n",
				"[1,2,3]\n{\"k\":\"v\"}\n\"str\"\n",
				"[]{}[[]]{\"a\":{}}",
				"1 2 3",
				"{\"a\":1,\"a\":2}",
				"{\"\\u00e9\\ud83d\\ude00\":\"\\n\\t\\\\\\\"\"}",
				"  [ 1 , 2 ]  \n\n  { \"a\" : null }  ",
				"18446744073709551615 -9223372036854775808 1e400 0.1",
				"\"\u{e9}\u{1F600}\u{feff}\"",
				"truefalse",
				"true1",
				"nul",
				"[1,2",
				"{\"a\":}",
				"{\"a\" 1}",
				"[1,,2]",
				"\"abc",
				"\"\\ud800\"",
				"\u{feff}{}",
			] {
				v.push(s.as_bytes().to_vec());
			}
			v.push(b"\"\xff\"".to_vec());
			v.push(b"[\"\xc3\"]".to_vec());
		}
		F::Yaml => {
			v.push(repo_file("single.yaml"));
			v.push(repo_file("multi.yaml"));
			v.push(repo_file("nullkey.yaml"));
			for n in ["utf16be", "utf16le", "utf32be", "utf32le", "utf16bebom", "utf32lebom"] {
				v.push(repo_file(&format!("{n}.yaml")));
			}
			for s in [
				"a: 1\nb: [x, y]\nc:\n  d: e\n",
				"---\na: 1\n---\n- 2\n- 3\n...\n---\nscalar\n",
				"- 1\n- 2\n",
				" - 1\n - 2\n",
				" a: 1\n b: 2\n",
				"  k:\n    - v\n",
				"# comment only\n",
				"\n",
				"",
				"--- # c\n...\n",
				"%YAML 1.2\n---\nx: y\n",
				"a: &x 1\nb: *x\n",
				"*y",
				"a: |\n  lit\n  eral\nb: >\n  fol\n  ded\n",
				"\"dq\\n\\u00e9\": 'sq'' x'\n",
				"{a: 1, b: [1, 2]}\n",
				"[a, b]\n---\n{c: d}\n",
				"? complex\n: value\n",
				"!!binary aGk=\n",
				"a: !t b\n",
				"x: 0o17\ny: 0x1F\nz: .inf\nw: .nan\nv: ~\n",
				"a: 1\n...\nb: 2\n",
				"a: 1\n--- \nb: 2\n",
				"key: [unclosed\n",
				"a: b: c\n",
				"\ta: 1\n",
				"\u{feff}a: 1\n",
				"a: 1\n\u{feff}---\nb: 2\n",
				"---\n---\n---\n",
				"--- >\n folded\n--- |\n literal\n",
				"a: 'x\n",
				"- - - 1\n    - 2\n",
				"{a: 1}{b: 2}",
				"\u{7a0}: 1\n",
				"--- a\n--- b\n...\n... \n",
				"# c\n\n   a: 1\n   b: 22\n",
				"\n  - 1\n  - 20",
				"# c\n  name: xt\n  size: 2048",
				"a: 1\n...\n# c\n   k: vvv\n   l: www\n",
			] {
				v.push(s.as_bytes().to_vec());
			}
			v.push(b"a: \xff\n".to_vec());
			v.push(b"\xffa: 1\n".to_vec());
		}
		F::Msgpack => {
			v.push(repo_file("single.msgpack"));
			v.push(repo_file("multi.msgpack"));
			for s in [
				"82a16101a162920203",
				"9301c0c3",
				"92 01",
				"dc0002 01 02",
				"de0001 a1 61 c0",
				"dd00000001 90",
				"df00000001 a0 80",
				"81 92 01 02 03",
				"91 c4 02 00 ff",
				"c7 02 05 01 02",
				"d4 01 02",
				"cf ffffffffffffffff d3 8000000000000000",
				"ca 3fc00000 cb 3ff8000000000000",
				"d9 02 c3 a9 da 0001 61 db 00000001 62",
				"a2 c3",
				"a1 ff",
				"c1",
				"93 01 02",
				"81 a1",
				"dc 80 3a 20 31 0a",
				"90 80 90",
				"01 02 03",
				"c6 ffffffff 00",
				"dd ffffffff",
				"81 c0 01",
				"81 90 01",
			] {
				v.push(crate::util::unhex(s));
			}
		}
		F::Toml => {
			v.push(repo_file("single.toml"));
			v.push(repo_file("initial_table.toml"));
			for s in [
				"a = 1\nb = \"s\"\n[t]\nc = [1, 2]\n[[u]]\nd = 1.5\n[[u]]\nd = true\n",
				"",
				"# only a comment\n",
				"a.b.c = 1\n",
				"x = { y = 1, z = [ {w = 2} ] }\n",
				"d = 1979-05-27T07:32:00Z\n",
				"s = \"\"\"\nmulti\nline\"\"\"\nl = '''lit'''\n",
				"i = 0x1F\nj = 0o17\nk = 0b11\nl = 1_000\nf = 1e3\ng = inf\nh = nan\n",
				"\"quoted key\" = 1\n'lit key' = 2\n\"\" = 3\n",
				"a = 1\na = 2\n",
				"a = \n",
				"[t\n",
				"a = [1, \n",
				"= 1\n",
				"a = 9223372036854775808\n",
				"[a]\n[a]\n",
				"a = \"\u{e9}\u{1F600}\"\n",
				"\u{feff}a = 1\n",
				"a = 1 b = 2\n",
				"[t]\n",
				"k = \"a: b\"\n",
			] {
				v.push(s.as_bytes().to_vec());
			}
			v.push(b"a = \"\xff\"\n".to_vec());
		}
	}
	v
}

const EDIT_BYTES: &[u8] = b" \n\r\t\"'[]{},:-#=.0a\\\x00\xff\xc3\x80\xfe\xef";

/// Single-edit neighbourhood: delete / replace / insert at every position, every truncation.
pub fn single_edits(seed: &[u8], max_len: usize) -> Vec<Vec<u8>> {
	let mut out = vec![];
	if seed.len() > max_len {
		// only truncations + edits within the first/last 64 bytes for long seeds
		for i in (0..seed.len()).step_by((seed.len() / 64).max(1)) {
			out.push(seed[..i].to_vec());
		}
		return out;
	}
	for i in 0..=seed.len() {
		out.push(seed[..i].to_vec());
		if i < seed.len() {
			let mut v = seed.to_vec();
			v.remove(i);
			out.push(v);
			for &b in EDIT_BYTES {
				if seed[i] != b {
					let mut v = seed.to_vec();
					v[i] = b;
					out.push(v);
				}
			}
		}
		for &b in EDIT_BYTES {
			let mut v = seed.to_vec();
			v.insert(i, b);
			out.push(v);
		}
	}
	out
}

pub fn dedup(v: Vec<Vec<u8>>) -> Vec<Vec<u8>> {
	let mut seen = HashSet::new();
	v.into_iter().filter(|x| seen.insert(x.clone())).collect()
}

/// The text seeds of a format with every LF written as CR LF and as a bare CR (YAML accepts all three
/// line breaks; for the other formats the variants are further malformed / whitespace inputs).
pub fn linebreak_variants(f: F) -> Vec<Vec<u8>> {
	let mut v = vec![];
	if f == F::Msgpack {
		return v;
	}
	for s in seeds(f) {
		if !s.contains(&b'\n') || s.contains(&0) {
			continue;
		}
		let mut crlf = vec![];
		let mut cr = vec![];
		for &b in &s {
			if b == b'\n' {
				crlf.extend_from_slice(b"\r\n");
				cr.push(b'\r');
			} else {
				crlf.push(b);
				cr.push(b);
			}
		}
		v.push(crlf);
		v.push(cr);
	}
	v
}

/// Sizes around the buffer sizes and length-header widths of xt and the crates under it
/// (BufReader/BufWriter 8 KiB, libyaml 16 KiB raw reads, 64 KiB pipes, page size): 2^k - 1, 2^k, 2^k + 1
/// and some further multiples of 8 KiB.
pub fn size_ladder(thorough: bool) -> Vec<usize> {
	let mut v = vec![];
	let ks: Vec<u32> = if thorough { (10..=18).collect() } else { vec![12, 13, 14, 16] };
	for k in ks {
		let p = 1usize << k;
		v.extend([p - 1, p, p + 1]);
	}
	for m in [3usize, 5, 6, 7] {
		let p = m * 8192;
		if thorough {
			v.extend([p - 1, p, p + 1]);
		} else if m == 3 {
			v.push(p);
		}
	}
	v.sort_unstable();
	v.dedup();
	v
}

/// A block of `# ...` comment lines of exactly `len` bytes.
pub fn comment_block(len: usize) -> String {
	let mut s = String::with_capacity(len);
	while s.len() < len {
		let left = len - s.len();
		if left == 1 {
			s.push('\n');
		} else {
			let line = left.min(80);
			s.push('#');
			for _ in 0..line - 2 {
				s.push('c');
			}
			s.push('\n');
		}
	}
	s
}

pub struct Layout {
	pub bytes: Vec<u8>,
	pub docs: Vec<crate::model::V>,
	pub label: String,
}

/// Three-document YAML streams in which either a leading comment block or the first document has an
/// exact size from the ladder, the first document being explicit, implicit or implicit and indented,
/// with three ways of ending a document.
pub fn yaml_layouts(thorough: bool) -> Vec<Layout> {
	use crate::model::V;
	let mut out = vec![];
	let seps = ["---\n", "...\n---\n", "...\n# gap\n\n---\n"];
	for &size in &size_ladder(thorough) {
		for big_comment in [true, false] {
			for (kind, indent, explicit) in [("explicit", 0usize, true), ("implicit", 0, false), ("indented", 2, false)] {
				for (si, sep) in seps.iter().enumerate() {
					let ind = " ".repeat(indent);
					let head = if explicit { "---\n" } else { "" };
					let overhead = head.len() + indent + "p: \n".len() + indent + "q: 1\n".len();
					let n = if big_comment { 5 } else { size.saturating_sub(overhead) };
					let z = "z".repeat(n);
					let mut text = comment_block(if big_comment { size } else { 10 });
					text.push_str(&format!("{head}{ind}p: {z}\n{ind}q: 1\n"));
					text.push_str(sep);
					text.push_str("second: 2\n");
					text.push_str(sep);
					text.push_str("- third\n");
					out.push(Layout {
						bytes: text.into_bytes(),
						docs: vec![V::map(vec![("p", V::Str(z)), ("q", V::Int(1))]), V::map(vec![("second", V::Int(2))]), V::Arr(vec![V::s("third")])],
						label: format!("yaml-layout:{}:{size}:{kind}:sep{si}", if big_comment { "comment" } else { "first-doc" }),
					});
				}
			}
		}
	}
	out
}

/// JSON / MessagePack streams whose first document has an exact size from the ladder, followed by two
/// small documents (JSON: with and without a line break between documents).
pub fn sized_streams(f: F, thorough: bool) -> Vec<Layout> {
	use crate::model::V;
	let mut out = vec![];
	for &size in &size_ladder(thorough) {
		match f {
			F::Json => {
				for (si, sep) in ["", "\n"].iter().enumerate() {
					let n = size - "{\"p\":\"\"}".len();
					let z = "z".repeat(n);
					let text = format!("{{\"p\":\"{z}\"}}{sep}{{\"second\":2}}{sep}[\"third\"]{sep}");
					out.push(Layout { bytes: text.into_bytes(), docs: vec![V::map(vec![("p", V::Str(z))]), V::map(vec![("second", V::Int(2))]), V::Arr(vec![V::s("third")])], label: format!("json-sized:{size}:sep{si}") });
				}
			}
			F::Msgpack => {
				// 81 a1 'p' <str header> <n bytes>
				let mut n = size - 3;
				let hdr = |n: usize| if n < 32 { 1 } else if n < 256 { 2 } else if n < 65536 { 3 } else { 5 };
				for _ in 0..3 {
					n = size - 3 - hdr(n);
				}
				if 3 + hdr(n) + n != size {
					continue;
				}
				let mut b = vec![0x81, 0xa1, b'p'];
				match hdr(n) {
					1 => b.push(0xa0 | n as u8),
					2 => b.extend([0xd9, n as u8]),
					3 => {
						b.push(0xda);
						b.extend((n as u16).to_be_bytes());
					}
					_ => {
						b.push(0xdb);
						b.extend((n as u32).to_be_bytes());
					}
				}
				b.extend(std::iter::repeat(b'z').take(n));
				assert!(b.len() == size);
				b.extend([0x81, 0xa6]);
				b.extend(b"second");
				b.push(0x02);
				b.extend([0x91, 0xa5]);
				b.extend(b"third");
				out.push(Layout { bytes: b, docs: vec![V::map(vec![("p", V::Str("z".repeat(n)))]), V::map(vec![("second", V::Int(2))]), V::Arr(vec![V::s("third")])], label: format!("msgpack-sized:{size}") });
			}
			_ => {}
		}
	}
	out
}
