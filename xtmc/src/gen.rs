//! E3: bounded-exhaustive generators (token sequences, seeds, edits).

use crate::run::F;
use std::collections::HashSet;

pub fn alphabet(f: F) -> Vec<Vec<u8>> {
	let strs: Vec<&[u8]> = match f {
		F::Json => vec![
			b"{", b"}", b"[", b"]", b",", b":", b"true", b"null", b"1", b"-1.5e0", b"\"a\"", b"\"\"",
			"\"\u{e9}\"".as_bytes(), b" ", b"\n",
		],
		F::Yaml => vec![
			b"---", b"...", b"\n", b" ", b"a", b":", b"- ", b"[", b"]", b"{", b"}", b",", b"#c", b"\"q\"",
			b"'s'", b"&x ", b"*x", b"|", b">", b"!t ", b"%YAML 1.2", b"? ", b"\t", "\u{feff}".as_bytes(),
		],
		F::Msgpack => {
			return [
				0xc0u8, 0xc2, 0xc3, 0x00, 0x7f, 0xff, 0xe0, 0xcc, 0xcd, 0xce, 0xcf, 0xd0, 0xd1, 0xd2, 0xd3, 0xca,
				0xcb, 0xa0, 0xa1, 0xd9, 0xda, 0xdb, 0xc4, 0xc5, 0xc6, 0x90, 0x91, 0x92, 0xdc, 0xdd, 0x80, 0x81,
				0x82, 0xde, 0xdf, 0xc1, 0xd4, 0xc7, 0x01, 0x61,
			]
			.iter()
			.map(|&b| vec![b])
			.collect()
		}
		F::Toml => vec![
			b"a", b"=", b"1", b"1.5", b"\"s\"", b"'s'", b"[", b"]", b"[[", b"]]", b".", b",", b"{", b"}", b"\n",
			b" ", b"#c", b"true", b"1979-05-27", b"\"\"\"", b"b",
		],
	};
	strs.into_iter().map(<[u8]>::to_vec).collect()
}

/// All concatenations of 0..=k tokens, deduplicated by resulting bytes, shortest first.
pub fn token_seqs(alpha: &[Vec<u8>], k: usize) -> Vec<Vec<u8>> {
	let mut out: Vec<Vec<u8>> = vec![vec![]];
	let mut seen: HashSet<Vec<u8>> = HashSet::new();
	seen.insert(vec![]);
	let mut layer: Vec<Vec<u8>> = vec![vec![]];
	for _ in 0..k {
		let mut next = Vec::with_capacity(layer.len() * alpha.len());
		for s in &layer {
			for t in alpha {
				let mut v = s.clone();
				v.extend_from_slice(t);
				if seen.insert(v.clone()) {
					next.push(v);
				}
			}
		}
		out.extend(next.iter().cloned());
		layer = next;
	}
	out
}

/// All byte strings of length <= n.
pub fn all_bytes(n: usize) -> Vec<Vec<u8>> {
	let mut out = vec![vec![]];
	let mut layer: Vec<Vec<u8>> = vec![vec![]];
	for _ in 0..n {
		let mut next = Vec::with_capacity(layer.len() * 256);
		for s in &layer {
			for b in 0..=255u8 {
				let mut v = s.clone();
				v.push(b);
				next.push(v);
			}
		}
		out.extend(next.iter().cloned());
		layer = next;
	}
	out
}

fn repo_file(name: &str) -> Vec<u8> {
	std::fs::read(format!("/repo/tests/{name}")).unwrap_or_else(|e| panic!("MACHINERY: cannot read /repo/tests/{name}: {e}"))
}

/// Hand-written seeds plus the repository's own test inputs.
pub fn seeds(f: F) -> Vec<Vec<u8>> {
	let mut v: Vec<Vec<u8>> = vec![];
	match f {
		F::Json => {
			v.push(repo_file("single.json"));
			v.push(repo_file("multi.json"));
			v.push(repo_file("single_reordered.json"));
			for s in [
				"{\"a\":1,\"b\":[true,null,\"x\"],\"c\":{\"d\":-2.5e3}}\n",
				"[1,2,3]\n{\"k\":\"v\"}\n\"str\"\n",
				"[]{}[[]]{\"a\":{}}",
				"1 2 3",
				"{\"a\":1,\"a\":2}",
				"{\"\\u00e9\\ud83d\\ude00\":\"\\n\\t\\\\\\\"\"}",
				"  [ 1 , 2 ]  \n\n  { \"a\" : null }  ",
				"18446744073709551615 -9223372036854775808 1e400 0.1",
				"\"\u{e9}\u{1F600}\u{feff}\"",
				"truefalse",
				"true1",
				"nul",
				"[1,2",
				"{\"a\":}",
				"{\"a\" 1}",
				"[1,,2]",
				"\"abc",
				"\"\\ud800\"",
				"\u{feff}{}",
			] {
				v.push(s.as_bytes().to_vec());
			}
			v.push(b"\"\xff\"".to_vec());
			v.push(b"[\"\xc3\"]".to_vec());
		}
		F::Yaml => {
			v.push(repo_file("single.yaml"));
			v.push(repo_file("multi.yaml"));
			v.push(repo_file("nullkey.yaml"));
			for n in ["utf16be", "utf16le", "utf32be", "utf32le", "utf16bebom", "utf32lebom"] {
				v.push(repo_file(&format!("{n}.yaml")));
			}
			for s in [
				"a: 1\nb: [x, y]\nc:\n  d: e\n",
				"---\na: 1\n---\n- 2\n- 3\n...\n---\nscalar\n",
				"- 1\n- 2\n",
				" - 1\n - 2\n",
				" a: 1\n b: 2\n",
				"  k:\n    - v\n",
				"# comment only\n",
				"\n",
				"",
				"--- # c\n...\n",
				"%YAML 1.2\n---\nx: y\n",
				"a: &x 1\nb: *x\n",
				"*y",
				"a: |\n  lit\n  eral\nb: >\n  fol\n  ded\n",
				"\"dq\\n\\u00e9\": 'sq'' x'\n",
				"{a: 1, b: [1, 2]}\n",
				"[a, b]\n---\n{c: d}\n",
				"? complex\n: value\n",
				"!!binary aGk=\n",
				"a: !t b\n",
				"x: 0o17\ny: 0x1F\nz: .inf\nw: .nan\nv: ~\n",
				"a: 1\n...\nb: 2\n",
				"a: 1\n--- \nb: 2\n",
				"key: [unclosed\n",
				"a: b: c\n",
				"\ta: 1\n",
				"\u{feff}a: 1\n",
				"a: 1\n\u{feff}---\nb: 2\n",
				"---\n---\n---\n",
				"--- >\n folded\n--- |\n literal\n",
				"a: 'x\n",
				"- - - 1\n    - 2\n",
				"{a: 1}{b: 2}",
				"\u{7a0}: 1\n",
				"--- a\n--- b\n...\n... \n",
				"# c\n\n   a: 1\n   b: 22\n",
				"\n  - 1\n  - 20",
				"# c\n  name: xt\n  size: 2048",
				"a: 1\n...\n# c\n   k: vvv\n   l: www\n",
			] {
				v.push(s.as_bytes().to_vec());
			}
			v.push(b"a: \xff\n".to_vec());
			v.push(b"\xffa: 1\n".to_vec());
		}
		F::Msgpack => {
			v.push(repo_file("single.msgpack"));
			v.push(repo_file("multi.msgpack"));
			for s in [
				"82a16101a162920203",
				"9301c0c3",
				"92 01",
				"dc0002 01 02",
				"de0001 a1 61 c0",
				"dd00000001 90",
				"df00000001 a0 80",
				"81 92 01 02 03",
				"91 c4 02 00 ff",
				"c7 02 05 01 02",
				"d4 01 02",
				"cf ffffffffffffffff d3 8000000000000000",
				"ca 3fc00000 cb 3ff8000000000000",
				"d9 02 c3 a9 da 0001 61 db 00000001 62",
				"a2 c3",
				"a1 ff",
				"c1",
				"93 01 02",
				"81 a1",
				"dc 80 3a 20 31 0a",
				"90 80 90",
				"01 02 03",
				"c6 ffffffff 00",
				"dd ffffffff",
				"81 c0 01",
				"81 90 01",
			] {
				v.push(crate::util::unhex(s));
			}
		}
		F::Toml => {
			v.push(repo_file("single.toml"));
			v.push(repo_file("initial_table.toml"));
			for s in [
				"a = 1\nb = \"s\"\n[t]\nc = [1, 2]\n[[u]]\nd = 1.5\n[[u]]\nd = true\n",
				"",
				"# only a comment\n",
				"a.b.c = 1\n",
				"x = { y = 1, z = [ {w = 2} ] }\n",
				"d = 1979-05-27T07:32:00Z\n",
				"s = \"\"\"\nmulti\nline\"\"\"\nl = '''lit'''\n",
				"i = 0x1F\nj = 0o17\nk = 0b11\nl = 1_000\nf = 1e3\ng = inf\nh = nan\n",
				"\"quoted key\" = 1\n'lit key' = 2\n\"\" = 3\n",
				"a = 1\na = 2\n",
				"a = \n",
				"[t\n",
				"a = [1, \n",
				"= 1\n",
				"a = 9223372036854775808\n",
				"[a]\n[a]\n",
				"a = \"\u{e9}\u{1F600}\"\n",
				"\u{feff}a = 1\n",
				"a = 1 b = 2\n",
				"[t]\n",
				"k = \"a: b\"\n",
			] {
				v.push(s.as_bytes().to_vec());
			}
			v.push(b"a = \"\xff\"\n".to_vec());
		}
	}
	v
}

const EDIT_BYTES: &[u8] = b" \n\t\"'[]{},:-#=.0a\\\x00\xff\xc3\x80\xfe\xef";

/// Single-edit neighbourhood: delete / replace / insert at every position, every truncation.
pub fn single_edits(seed: &[u8], max_len: usize) -> Vec<Vec<u8>> {
	let mut out = vec![];
	if seed.len() > max_len {
		// only truncations + edits within the first/last 64 bytes for long seeds
		for i in (0..seed.len()).step_by((seed.len() / 64).max(1)) {
			out.push(seed[..i].to_vec());
		}
		return out;
	}
	for i in 0..=seed.len() {
		out.push(seed[..i].to_vec());
		if i < seed.len() {
			let mut v = seed.to_vec();
			v.remove(i);
			out.push(v);
			for &b in EDIT_BYTES {
				if seed[i] != b {
					let mut v = seed.to_vec();
					v[i] = b;
					out.push(v);
				}
			}
		}
		for &b in EDIT_BYTES {
			let mut v = seed.to_vec();
			v.insert(i, b);
			out.push(v);
		}
	}
	out
}

pub fn dedup(v: Vec<Vec<u8>>) -> Vec<Vec<u8>> {
	let mut seen = HashSet::new();
	v.into_iter().filter(|x| seen.insert(x.clone())).collect()
}
