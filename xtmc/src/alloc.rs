//! Counting global allocator: per-thread live bytes / live blocks (used by C05).

use std::alloc::{GlobalAlloc, Layout, System};
use std::cell::Cell;

pub struct Counting;

thread_local! {
	static LIVE_BYTES: Cell<isize> = const { Cell::new(0) };
	static LIVE_BLOCKS: Cell<isize> = const { Cell::new(0) };
	static PEAK_BYTES: Cell<isize> = const { Cell::new(0) };
}

fn add(bytes: isize, blocks: isize) {
	// try_with: TLS may be gone during thread teardown
	let _ = LIVE_BYTES.try_with(|b| {
		let v = b.get() + bytes;
		b.set(v);
		let _ = PEAK_BYTES.try_with(|p| {
			if v > p.get() {
				p.set(v);
			}
		});
	});
	let _ = LIVE_BLOCKS.try_with(|b| b.set(b.get() + blocks));
}

// SAFETY: forwards to the system allocator; only bookkeeping is added.
unsafe impl GlobalAlloc for Counting {
	unsafe fn alloc(&self, l: Layout) -> *mut u8 {
		let p = unsafe { System.alloc(l) };
		if !p.is_null() {
			add(l.size() as isize, 1);
		}
		p
	}
	unsafe fn dealloc(&self, p: *mut u8, l: Layout) {
		unsafe { System.dealloc(p, l) };
		add(-(l.size() as isize), -1);
	}
	unsafe fn alloc_zeroed(&self, l: Layout) -> *mut u8 {
		let p = unsafe { System.alloc_zeroed(l) };
		if !p.is_null() {
			add(l.size() as isize, 1);
		}
		p
	}
	unsafe fn realloc(&self, p: *mut u8, l: Layout, new: usize) -> *mut u8 {
		let q = unsafe { System.realloc(p, l, new) };
		if !q.is_null() {
			add(new as isize - l.size() as isize, 0);
		}
		q
	}
}

/// (live bytes, live blocks) of the calling thread.
pub fn live() -> (isize, isize) {
	(LIVE_BYTES.with(Cell::get), LIVE_BLOCKS.with(Cell::get))
}

pub fn reset_peak() {
	PEAK_BYTES.with(|p| p.set(LIVE_BYTES.with(Cell::get)));
}

pub fn peak() -> isize {
	PEAK_BYTES.with(Cell::get)
}
