//! Batched, out-of-process TOML reading with Python's stdlib tomllib (independent of the `toml` crate).

use std::io::Write;
use std::process::Command;

use crate::util::hex;

#[derive(Default)]
pub struct TomlBatch {
	/// (expected canonical dump or None = "must merely be one valid document", toml bytes, description, replay case)
	pub items: Vec<(Option<String>, Vec<u8>, String, serde_json::Value)>,
}

impl TomlBatch {
	pub fn push(&mut self, expected: Option<String>, toml: Vec<u8>, desc: String, case: serde_json::Value) {
		self.items.push((expected, toml, desc, case));
	}
	pub fn merge(&mut self, o: TomlBatch) {
		self.items.extend(o.items);
	}
	/// Runs the oracle; returns (records checked, list of (index, reason)) for failing records.
	pub fn run(&self, tag: &str) -> (usize, Vec<(usize, String)>) {
		if self.items.is_empty() {
			return (0, vec![]);
		}
		// identical (expected, bytes) records are read once
		let mut seen = std::collections::HashSet::new();
		let unique: Vec<usize> = (0..self.items.len())
			.filter(|&i| {
				let (e, b, _, _) = &self.items[i];
				seen.insert(crate::util::fnv(&[e.as_deref().unwrap_or("-").as_bytes(), b]))
			})
			.collect();
		let shards = crate::util::threads().min(unique.len()).max(1);
		let dir = format!("{}/.work", crate::report::VERIF);
		std::fs::create_dir_all(&dir).ok();
		let mut children = vec![];
		for s in 0..shards {
			let path = format!("{dir}/toml-{tag}-{}-{s}.txt", std::process::id());
			let mut f = std::io::BufWriter::new(std::fs::File::create(&path).expect("MACHINERY: cannot write oracle input"));
			for (u, &i) in unique.iter().enumerate() {
				let (exp, toml, _, _) = &self.items[i];
				if u % shards == s {
					let e = exp.as_ref().map_or("-".to_string(), |e| hex(e.as_bytes()));
					writeln!(f, "{i}\t{e}\t{}", hex(toml)).unwrap();
				}
			}
			f.flush().unwrap();
			drop(f);
			let child = Command::new("python3")
				.arg(format!("{}/oracle/pyoracle.py", crate::report::VERIF))
				.arg(&path)
				.stdout(std::process::Stdio::piped())
				.stderr(std::process::Stdio::piped())
				.spawn()
				.map(std::process::Child::wait_with_output);
			children.push((path, child));
		}
		let mut bad = vec![];
		let mut total = 0usize;
		for (path, out) in children {
			let out = out.expect("MACHINERY: cannot spawn python3 oracle").expect("MACHINERY: python3 oracle failed");
			let text = String::from_utf8_lossy(&out.stdout);
			let mut done = false;
			for line in text.lines() {
				if let Some(rest) = line.strip_prefix("DONE ") {
					done = true;
					total += rest.split(' ').next().unwrap().parse::<usize>().unwrap();
				} else if let Some((id, reason)) = line.split_once('\t') {
					bad.push((id.parse().unwrap(), reason.to_string()));
				}
			}
			if !done {
				panic!("MACHINERY: TOML oracle did not finish: {}", String::from_utf8_lossy(&out.stderr));
			}
			std::fs::remove_file(path).ok();
		}
		(total, bad)
	}
}
