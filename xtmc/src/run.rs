//! Running the real xt library under catch_unwind, with uniform outcomes.

use std::cell::RefCell;
use std::io::{Read, Write};
use std::panic::{catch_unwind, AssertUnwindSafe};

#[derive(Copy, Clone, PartialEq, Eq, Hash, Debug, PartialOrd, Ord)]
pub enum F {
	Json,
	Msgpack,
	Toml,
	Yaml,
}

impl F {
	pub const ALL: [F; 4] = [F::Json, F::Msgpack, F::Toml, F::Yaml];
	pub const STREAMING: [F; 3] = [F::Json, F::Msgpack, F::Yaml];
	pub fn xt(self) -> xt::Format {
		match self {
			F::Json => xt::Format::Json,
			F::Msgpack => xt::Format::Msgpack,
			F::Toml => xt::Format::Toml,
			F::Yaml => xt::Format::Yaml,
		}
	}
	pub fn from_xt(f: xt::Format) -> F {
		match f {
			xt::Format::Json => F::Json,
			xt::Format::Msgpack => F::Msgpack,
			xt::Format::Toml => F::Toml,
			xt::Format::Yaml => F::Yaml,
			_ => panic!("unknown xt::Format"),
		}
	}
	pub fn name(self) -> &'static str {
		match self {
			F::Json => "json",
			F::Msgpack => "msgpack",
			F::Toml => "toml",
			F::Yaml => "yaml",
		}
	}
	pub fn letter(self) -> &'static str {
		&self.name()[..1]
	}
	pub fn parse(s: &str) -> Option<F> {
		match s {
			"json" | "j" => Some(F::Json),
			"msgpack" | "m" => Some(F::Msgpack),
			"toml" | "t" => Some(F::Toml),
			"yaml" | "y" => Some(F::Yaml),
			_ => None,
		}
	}
}

pub fn fname(f: Option<F>) -> &'static str {
	f.map_or("detect", F::name)
}

thread_local! {
	static LAST_PANIC: RefCell<Option<String>> = const { RefCell::new(None) };
}

/// Installs a silent panic hook that records the message per thread.
pub fn install_panic_hook() {
	std::panic::set_hook(Box::new(|info| {
		let msg = format!("{info}");
		if std::env::var_os("XTMC_SHOW_PANICS").is_some() || msg.contains("MACHINERY") {
			eprintln!("[panic] {msg}");
		}
		LAST_PANIC.with(|p| *p.borrow_mut() = Some(msg));
	}));
}

pub fn take_panic() -> Option<String> {
	LAST_PANIC.with(|p| p.borrow_mut().take())
}

#[derive(Clone, Debug, PartialEq, Eq)]
pub struct Outcome {
	pub ok: bool,
	pub err: String,
	pub out: Vec<u8>,
	pub panic: Option<String>,
}

impl Outcome {
	pub fn verdict(&self) -> &'static str {
		if self.panic.is_some() {
			"panic"
		} else if self.ok {
			"ok"
		} else {
			"err"
		}
	}
	pub fn brief(&self) -> String {
		match (&self.panic, self.ok) {
			(Some(p), _) => format!("PANIC({p}) out={}", crate::util::show(&self.out)),
			(None, true) => format!("Ok out={}", crate::util::show(&self.out)),
			(None, false) => format!("Err({}) out={}", self.err, crate::util::show(&self.out)),
		}
	}
}

/// A writer that appends to a shared buffer, so output survives a panic.
pub struct SharedBuf<'a>(pub &'a RefCell<Vec<u8>>);
impl Write for SharedBuf<'_> {
	fn write(&mut self, b: &[u8]) -> std::io::Result<usize> {
		self.0.borrow_mut().extend_from_slice(b);
		Ok(b.len())
	}
	fn flush(&mut self) -> std::io::Result<()> {
		Ok(())
	}
}

pub fn guarded(out: &RefCell<Vec<u8>>, f: impl FnOnce() -> xt::Result<()>) -> Outcome {
	let r = catch_unwind(AssertUnwindSafe(f));
	let out = std::mem::take(&mut *out.borrow_mut());
	match r {
		Ok(Ok(())) => Outcome { ok: true, err: String::new(), out, panic: None },
		Ok(Err(e)) => Outcome { ok: false, err: e.to_string(), out, panic: None },
		Err(_) => Outcome {
			ok: false,
			err: String::new(),
			out,
			panic: Some(take_panic().unwrap_or_else(|| "?".into())),
		},
	}
}

pub fn run_slice(input: &[u8], from: Option<F>, to: F) -> Outcome {
	let buf = RefCell::new(Vec::new());
	guarded(&buf, || xt::translate_slice(input, from.map(F::xt), to.xt(), SharedBuf(&buf)))
}

pub fn run_reader<R: Read>(input: R, from: Option<F>, to: F) -> Outcome {
	let buf = RefCell::new(Vec::new());
	guarded(&buf, || xt::translate_reader(input, from.map(F::xt), to.xt(), SharedBuf(&buf)))
}

/// Translate from a reader into an arbitrary writer; output is whatever the writer kept.
pub fn run_reader_to<R: Read, W: Write>(input: R, from: Option<F>, to: F, w: W) -> (bool, String, Option<String>) {
	let r = catch_unwind(AssertUnwindSafe(|| xt::translate_reader(input, from.map(F::xt), to.xt(), w)));
	match r {
		Ok(Ok(())) => (true, String::new(), None),
		Ok(Err(e)) => (false, e.to_string(), None),
		Err(_) => (false, String::new(), Some(take_panic().unwrap_or_else(|| "?".into()))),
	}
}

pub fn run_slice_to<W: Write>(input: &[u8], from: Option<F>, to: F, w: W) -> (bool, String, Option<String>) {
	let r = catch_unwind(AssertUnwindSafe(|| xt::translate_slice(input, from.map(F::xt), to.xt(), w)));
	match r {
		Ok(Ok(())) => (true, String::new(), None),
		Ok(Err(e)) => (false, e.to_string(), None),
		Err(_) => (false, String::new(), Some(take_panic().unwrap_or_else(|| "?".into()))),
	}
}

/// A reader that hands out fixed-size chunks (0 = everything available).
pub struct ChunkReader<'a> {
	pub data: &'a [u8],
	pub pos: usize,
	pub chunk: usize,
}
impl<'a> ChunkReader<'a> {
	pub fn new(data: &'a [u8], chunk: usize) -> Self {
		Self { data, pos: 0, chunk }
	}
}
impl Read for ChunkReader<'_> {
	fn read(&mut self, buf: &mut [u8]) -> std::io::Result<usize> {
		let mut n = buf.len().min(self.data.len() - self.pos);
		if self.chunk > 0 {
			n = n.min(self.chunk);
		}
		buf[..n].copy_from_slice(&self.data[self.pos..self.pos + n]);
		self.pos += n;
		Ok(n)
	}
}

pub fn detect_slice(input: &[u8]) -> Result<Option<F>, String> {
	match catch_unwind(AssertUnwindSafe(|| xt::verif::detect_slice(input))) {
		Ok(Ok(f)) => Ok(f.map(F::from_xt)),
		Ok(Err(e)) => Err(format!("io:{e}")),
		Err(_) => Err(format!("panic:{}", take_panic().unwrap_or_default())),
	}
}

pub fn detect_reader<R: Read>(r: R) -> Result<Option<F>, String> {
	match catch_unwind(AssertUnwindSafe(|| xt::verif::detect_reader(r))) {
		Ok(Ok(f)) => Ok(f.map(F::from_xt)),
		Ok(Err(e)) => Err(format!("io:{e}")),
		Err(_) => Err(format!("panic:{}", take_panic().unwrap_or_default())),
	}
}
