//! Tallies, evidence files, replay artefacts and the known-findings protocol.

use std::collections::{BTreeMap, HashSet};
use std::path::PathBuf;
use std::time::Instant;

use serde_json::{json, Map, Value};

pub const VERIF: &str = "/verif";

/// A violating case: `class` names the explanation (or "unexplained-…"), `case` is replayable.
#[derive(Clone, Debug)]
pub struct Bad {
	pub class: String,
	pub case: Value,
	pub detail: String,
}

/// Per-worker accumulator, merged at the end of a check.
#[derive(Default)]
pub struct Tally {
	pub evaluations: u64,
	pub distinct: HashSet<u64>,
	pub counters: BTreeMap<String, u64>,
	/// metrics merged by maximum instead of by sum
	pub maxes: BTreeMap<String, u64>,
	pub samples: Vec<Value>,
	pub bad: BTreeMap<String, (u64, Bad)>,
	pub states: u64,
	pub transitions: u64,
	pub traces: u64,
	pub capped: u64,
}

impl Tally {
	pub fn count(&mut self, key: &str) {
		*self.counters.entry(key.to_string()).or_insert(0) += 1;
	}
	pub fn add(&mut self, key: &str, n: u64) {
		*self.counters.entry(key.to_string()).or_insert(0) += n;
	}
	pub fn max(&mut self, key: &str, v: u64) {
		let e = self.maxes.entry(key.to_string()).or_insert(0);
		*e = (*e).max(v);
	}
	pub fn nontrivial(&mut self, h: u64) {
		self.distinct.insert(h);
	}
	pub fn sample(&mut self, cap: usize, v: impl FnOnce() -> Value) {
		if self.samples.len() < cap {
			self.samples.push(v());
		}
	}
	pub fn bad(&mut self, class: impl Into<String>, case: Value, detail: impl Into<String>) {
		let class = class.into();
		let e = self.bad.entry(class.clone());
		match e {
			std::collections::btree_map::Entry::Occupied(mut o) => o.get_mut().0 += 1,
			std::collections::btree_map::Entry::Vacant(v) => {
				v.insert((1, Bad { class, case, detail: detail.into() }));
			}
		}
	}
	pub fn merge(&mut self, o: Tally) {
		self.evaluations += o.evaluations;
		self.distinct.extend(o.distinct);
		for (k, v) in o.counters {
			*self.counters.entry(k).or_insert(0) += v;
		}
		for (k, v) in o.maxes {
			let e = self.maxes.entry(k).or_insert(0);
			*e = (*e).max(v);
		}
		for s in o.samples {
			if self.samples.len() < 12 {
				self.samples.push(s);
			}
		}
		for (k, (n, b)) in o.bad {
			match self.bad.entry(k) {
				std::collections::btree_map::Entry::Occupied(mut e) => e.get_mut().0 += n,
				std::collections::btree_map::Entry::Vacant(e) => {
					e.insert((n, b));
				}
			}
		}
		self.states += o.states;
		self.transitions += o.transitions;
		self.traces += o.traces;
		self.capped += o.capped;
	}
	pub fn merge_all(v: Vec<Tally>) -> Tally {
		let mut t = Tally::default();
		for x in v {
			t.merge(x);
		}
		t
	}
}

pub struct CheckOutput {
	pub level: &'static str,
	pub tally: Tally,
	pub rule: String,
	pub exhaustive: bool,
	pub bounds: Value,
	pub assumptions: Vec<String>,
	/// dimensions that must each have been reached at least once: (name, count)
	pub required: Vec<(String, u64)>,
	pub extra: Map<String, Value>,
}

pub struct Ctx {
	pub id: String,
	pub tier: String,
	pub seed: u64,
	pub start: Instant,
}

impl Ctx {
	pub fn thorough(&self) -> bool {
		self.tier == "thorough"
	}
}

/// Known findings: property -> set of class names.
pub fn known_findings() -> BTreeMap<String, HashSet<String>> {
	let mut m: BTreeMap<String, HashSet<String>> = BTreeMap::new();
	let path = format!("{VERIF}/KNOWN_FINDINGS.txt");
	let Ok(text) = std::fs::read_to_string(path) else { return m };
	for line in text.lines() {
		let line = line.trim();
		if !line.starts_with("finding:") {
			continue; // `fixed:` lines and comments suppress nothing
		}
		let mut prop = None;
		let mut class = None;
		for w in line.split_whitespace() {
			if let Some(p) = w.strip_prefix("property=") {
				prop = Some(p.to_string());
			}
			if let Some(c) = w.strip_prefix("class=") {
				class = Some(c.to_string());
			}
		}
		if let (Some(p), Some(c)) = (prop, class) {
			m.entry(p).or_default().insert(c);
		}
	}
	m
}

/// Writes evidence and replays, prints verdict lines, returns the process exit code.
pub fn finish(ctx: &Ctx, out: CheckOutput) -> i32 {
	let wall = ctx.start.elapsed().as_secs_f64();
	let known = known_findings();
	let known_here = known.get(&ctx.id).cloned().unwrap_or_default();
	let t = &out.tally;

	// vacuity guard
	let mut machinery_err = vec![];
	for (name, n) in &out.required {
		if *n == 0 {
			machinery_err.push(format!("dimension never reached: {name}"));
		}
	}

	let mut n_viol = 0u64;
	let mut known_list = vec![];
	let mut viol_list = vec![];
	let dir = PathBuf::from(format!("{VERIF}/replays/{}", ctx.id));
	for (class, (n, bad)) in &t.bad {
		if known_here.contains(class) {
			println!(
				"KNOWN-FINDING: property={} class={} n={} first: {}",
				ctx.id, class, n, bad.detail
			);
			known_list.push(json!({"class": class, "n": n, "first": bad.detail}));
			continue;
		}
		n_viol += n;
		std::fs::create_dir_all(&dir).ok();
		let h = crate::util::fnv(&[bad.case.to_string().as_bytes()]);
		let safe: String =
			class.chars().map(|c| if c.is_ascii_alphanumeric() || c == '-' { c } else { '_' }).take(60).collect();
		let path = dir.join(format!("{safe}-{h:016x}.json"));
		let body = json!({
			"property": ctx.id, "class": class, "count_in_run": n, "detail": bad.detail, "case": bad.case,
		});
		std::fs::write(&path, serde_json::to_string_pretty(&body).unwrap()).ok();
		println!("VIOLATION property={} replay={}", ctx.id, path.display());
		println!("  class={} n={} :: {}", class, n, bad.detail);
		viol_list.push(json!({"class": class, "n": n, "replay": path.display().to_string(), "detail": bad.detail}));
	}

	let mut cov = Map::new();
	cov.insert("evaluations".into(), json!(t.evaluations));
	cov.insert("distinct_nontrivial".into(), json!(t.distinct.len()));
	cov.insert("rule".into(), json!(out.rule));
	let mut samples = t.samples.clone();
	if samples.is_empty() {
		samples.push(json!("(no sample recorded)"));
	}
	// VERIF_SEED only rotates which samples are shown.
	if !samples.is_empty() {
		let r = (ctx.seed as usize) % samples.len();
		samples.rotate_left(r);
	}
	samples.truncate(8);
	cov.insert("samples".into(), Value::Array(samples));
	if t.states > 0 || t.transitions > 0 {
		cov.insert("states".into(), json!(t.states));
		cov.insert("transitions".into(), json!(t.transitions));
		cov.insert("traces_validated_against_impl".into(), json!(t.traces));
	}
	cov.insert("exhaustive".into(), json!(out.exhaustive && t.capped == 0));
	cov.insert("capped_explorations".into(), json!(t.capped));
	cov.insert("bounds".into(), out.bounds.clone());
	cov.insert("counters".into(), json!(t.counters));
	cov.insert("maxima".into(), json!(t.maxes));
	cov.insert("known_findings_matched".into(), Value::Array(known_list));
	cov.insert("violations_new".into(), Value::Array(viol_list));
	cov.insert(
		"required_dimensions".into(),
		Value::Object(out.required.iter().map(|(k, v)| (k.clone(), json!(v))).collect()),
	);
	for (k, v) in out.extra {
		cov.insert(k, v);
	}
	let ev = json!({
		"property_id": ctx.id,
		"tier": ctx.tier,
		"seed": ctx.seed,
		"level": out.level,
		"coverage": Value::Object(cov),
		"assumptions": out.assumptions,
		"wall_s": (wall * 1000.0).round() / 1000.0,
		"violations": n_viol,
	});
	std::fs::create_dir_all(format!("{VERIF}/evidence")).ok();
	std::fs::write(
		format!("{VERIF}/evidence/{}.json", ctx.id),
		serde_json::to_string_pretty(&ev).unwrap() + "\n",
	)
	.expect("write evidence");

	println!(
		"[{} {}] evaluations={} distinct_nontrivial={} states={} transitions={} capped={} wall={:.1}s violations={}",
		ctx.id,
		ctx.tier,
		t.evaluations,
		t.distinct.len(),
		t.states,
		t.transitions,
		t.capped,
		wall,
		n_viol
	);
	for (k, v) in &t.counters {
		println!("    {k} = {v}");
	}
	for (k, v) in &t.maxes {
		println!("    max {k} = {v}");
	}
	if n_viol > 0 {
		// a violation cut the run short; missing dimensions are a consequence, not a machinery failure
		for m in machinery_err {
			eprintln!("note: {m} (the run reported violations)");
		}
		return 1;
	}
	if !machinery_err.is_empty() {
		for m in machinery_err {
			eprintln!("MACHINERY ERROR: {m}");
		}
		return 2;
	}
	0
}
