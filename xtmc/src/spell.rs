//! Spellers: turn a model value into source text of each format, in several equivalent spellings.
//! Only spellings whose meaning is unambiguous in the format's specification are produced.

use std::fmt::Write as _;

use crate::model::V;
use crate::run::F;

/// Spelling variant; each format interprets the bits it cares about.
#[derive(Clone, Copy, Debug, PartialEq, Eq, Hash)]
pub struct Style(pub u32);

impl Style {
	pub fn bit(self, i: u32) -> bool {
		self.0 & (1 << i) != 0
	}
}

/// Number of meaningful style variants per format (styles 0..n).
pub fn style_count(f: F) -> u32 {
	match f {
		F::Json => 4,
		F::Msgpack => 2,
		F::Yaml => 8,
		F::Toml => 3,
	}
}

pub fn float_text(bits: u64, style17: bool, upper: bool) -> String {
	let f = f64::from_bits(bits);
	let mut s = if style17 { format!("{f:.16e}") } else { format!("{f:e}") };
	if upper {
		s = s.replace('e', "E+").replace("E+-", "E-");
	}
	s
}

// ---------------------------------------------------------------------------------------- JSON

fn json_str(out: &mut String, s: &str, escape_non_ascii: bool) {
	out.push('"');
	for ch in s.chars() {
		match ch {
			'"' => out.push_str("\\\""),
			'\\' => out.push_str("\\\\"),
			'\n' => out.push_str("\\n"),
			'\r' => out.push_str("\\r"),
			'\t' => out.push_str("\\t"),
			'\u{8}' => out.push_str("\\b"),
			'\u{c}' => out.push_str("\\f"),
			c if (c as u32) < 0x20 => {
				let _ = write!(out, "\\u{:04x}", c as u32);
			}
			c if escape_non_ascii && (c as u32) > 0x7e => {
				let mut buf = [0u16; 2];
				for u in c.encode_utf16(&mut buf) {
					let _ = write!(out, "\\u{:04X}", u);
				}
			}
			'/' if escape_non_ascii => out.push_str("\\/"),
			c => out.push(c),
		}
	}
	out.push('"');
}

fn json_into(out: &mut String, v: &V, st: Style) -> bool {
	let (sp, nl) = if st.bit(0) { (" ", "\n") } else { ("", "") };
	match v {
		V::Null => out.push_str("null"),
		V::Bool(b) => out.push_str(if *b { "true" } else { "false" }),
		V::Int(i) => {
			let _ = write!(out, "{i}");
		}
		V::Float(b) => {
			let f = f64::from_bits(*b);
			if !f.is_finite() {
				return false;
			}
			out.push_str(&float_text(*b, st.bit(1), st.bit(0)));
		}
		V::Str(s) => json_str(out, s, st.bit(1)),
		V::Arr(a) => {
			out.push('[');
			out.push_str(nl);
			for (i, x) in a.iter().enumerate() {
				if i > 0 {
					out.push(',');
					out.push_str(sp);
				}
				if !json_into(out, x, st) {
					return false;
				}
			}
			out.push_str(nl);
			out.push(']');
		}
		V::Map(m) => {
			out.push('{');
			for (i, (k, x)) in m.iter().enumerate() {
				if i > 0 {
					out.push(',');
					out.push_str(nl);
				}
				match k {
					V::Str(k) => json_str(out, k, st.bit(1)),
					_ => return false,
				}
				out.push_str(sp);
				out.push(':');
				out.push_str(sp);
				if !json_into(out, x, st) {
					return false;
				}
			}
			out.push('}');
		}
		_ => return false,
	}
	true
}

// ---------------------------------------------------------------------------------- MessagePack

fn mp_into(out: &mut Vec<u8>, v: &V, wide: bool) -> bool {
	match v {
		V::Null => out.push(0xc0),
		V::Bool(b) => out.push(if *b { 0xc3 } else { 0xc2 }),
		V::Int(i) => {
			let i = *i;
			if wide {
				if i >= 0 {
					out.push(0xcf);
					out.extend_from_slice(&(i as u64).to_be_bytes());
				} else {
					out.push(0xd3);
					out.extend_from_slice(&(i as i64).to_be_bytes());
				}
			} else if (0..128).contains(&i) {
				out.push(i as u8);
			} else if (-32..0).contains(&i) {
				out.push(i as i8 as u8);
			} else if i >= 0 {
				if i < 256 {
					out.push(0xcc);
					out.push(i as u8);
				} else if i < 65536 {
					out.push(0xcd);
					out.extend_from_slice(&(i as u16).to_be_bytes());
				} else if i < (1 << 32) {
					out.push(0xce);
					out.extend_from_slice(&(i as u32).to_be_bytes());
				} else {
					out.push(0xcf);
					out.extend_from_slice(&(i as u64).to_be_bytes());
				}
			} else if i >= -128 {
				out.push(0xd0);
				out.push(i as i8 as u8);
			} else if i >= -32768 {
				out.push(0xd1);
				out.extend_from_slice(&(i as i16).to_be_bytes());
			} else if i >= -(1 << 31) {
				out.push(0xd2);
				out.extend_from_slice(&(i as i32).to_be_bytes());
			} else {
				out.push(0xd3);
				out.extend_from_slice(&(i as i64).to_be_bytes());
			}
		}
		V::Float(b) => {
			out.push(0xcb);
			out.extend_from_slice(&b.to_be_bytes());
		}
		V::F32(b) => {
			out.push(0xca);
			out.extend_from_slice(&b.to_be_bytes());
		}
		V::Str(s) => {
			let n = s.len();
			if wide {
				out.push(0xdb);
				out.extend_from_slice(&(n as u32).to_be_bytes());
			} else if n < 32 {
				out.push(0xa0 | n as u8);
			} else if n < 256 {
				out.push(0xd9);
				out.push(n as u8);
			} else if n < 65536 {
				out.push(0xda);
				out.extend_from_slice(&(n as u16).to_be_bytes());
			} else {
				out.push(0xdb);
				out.extend_from_slice(&(n as u32).to_be_bytes());
			}
			out.extend_from_slice(s.as_bytes());
		}
		V::Bytes(b) => {
			let n = b.len();
			if !wide && n < 256 {
				out.push(0xc4);
				out.push(n as u8);
			} else if !wide && n < 65536 {
				out.push(0xc5);
				out.extend_from_slice(&(n as u16).to_be_bytes());
			} else {
				out.push(0xc6);
				out.extend_from_slice(&(n as u32).to_be_bytes());
			}
			out.extend_from_slice(b);
		}
		V::Arr(a) => {
			let n = a.len();
			if wide {
				out.push(0xdd);
				out.extend_from_slice(&(n as u32).to_be_bytes());
			} else if n < 16 {
				out.push(0x90 | n as u8);
			} else if n < 65536 {
				out.push(0xdc);
				out.extend_from_slice(&(n as u16).to_be_bytes());
			} else {
				out.push(0xdd);
				out.extend_from_slice(&(n as u32).to_be_bytes());
			}
			for x in a {
				if !mp_into(out, x, wide) {
					return false;
				}
			}
		}
		V::Map(m) => {
			let n = m.len();
			if wide {
				out.push(0xdf);
				out.extend_from_slice(&(n as u32).to_be_bytes());
			} else if n < 16 {
				out.push(0x80 | n as u8);
			} else if n < 65536 {
				out.push(0xde);
				out.extend_from_slice(&(n as u16).to_be_bytes());
			} else {
				out.push(0xdf);
				out.extend_from_slice(&(n as u32).to_be_bytes());
			}
			for (k, x) in m {
				if !mp_into(out, k, wide) || !mp_into(out, x, wide) {
					return false;
				}
			}
		}
		V::Other(_) => return false,
	}
	true
}

// ---------------------------------------------------------------------------------------- YAML

fn yaml_printable(c: char) -> bool {
	let u = c as u32;
	(0x20..=0x7e).contains(&u)
		|| (0xa0..=0xd7ff).contains(&u)
		|| ((0xe000..=0xfffd).contains(&u) && u != 0xfeff)
		|| (0x10000..=0x10ffff).contains(&u)
}

fn yaml_dq(out: &mut String, s: &str, raw_unicode: bool) {
	out.push('"');
	for ch in s.chars() {
		let u = ch as u32;
		match ch {
			'"' => out.push_str("\\\""),
			'\\' => out.push_str("\\\\"),
			'\n' => out.push_str("\\n"),
			'\t' => out.push_str("\\t"),
			'\r' => out.push_str("\\r"),
			'\0' => out.push_str("\\0"),
			c if (0x20..=0x7e).contains(&u) => out.push(c),
			c if raw_unicode && yaml_printable(c) && u != 0x2028 && u != 0x2029 && u != 0x85 => out.push(c),
			_ if u <= 0xff => {
				let _ = write!(out, "\\x{u:02x}");
			}
			_ if u <= 0xffff => {
				let _ = write!(out, "\\u{u:04x}");
			}
			_ => {
				let _ = write!(out, "\\U{u:08x}");
			}
		}
	}
	out.push('"');
}

fn yaml_sq_ok(s: &str) -> bool {
	!s.is_empty() && s.chars().all(|c| yaml_printable(c) && c != '\u{85}' && c != '\u{2028}' && c != '\u{2029}') && !s.starts_with(' ') && !s.ends_with(' ')
}

fn yaml_plain_ok(s: &str) -> bool {
	// deliberately conservative: letters/digits/inner spaces/underscore/dot only, first char a letter,
	// and not something the core schema resolves to a non-string
	if s.is_empty() || !s.chars().next().unwrap().is_ascii_alphabetic() {
		return false;
	}
	if !s.chars().all(|c| c.is_ascii_alphanumeric() || c == '_' || c == ' ') || s.ends_with(' ') || s.contains("  ") {
		return false;
	}
	matches!(crate::yamlread::resolve_plain(s), V::Str(_))
		&& !matches!(s.to_ascii_lowercase().as_str(), "y" | "n" | "yes" | "no" | "on" | "off" | "true" | "false" | "null")
}

fn yaml_scalar(out: &mut String, v: &V, st: Style) -> bool {
	match v {
		V::Null => out.push_str(if st.bit(1) { "~" } else { "null" }),
		V::Bool(b) => out.push_str(if *b { "true" } else { "false" }),
		V::Int(i) => {
			if st.bit(1) && *i >= 0 {
				let _ = write!(out, "0x{i:X}");
			} else {
				let _ = write!(out, "{i}");
			}
		}
		V::Float(b) => {
			let f = f64::from_bits(*b);
			if f.is_nan() {
				out.push_str(".nan");
			} else if f.is_infinite() {
				out.push_str(if f > 0.0 { ".inf" } else { "-.inf" });
			} else {
				out.push_str(&float_text(*b, st.bit(1), false));
			}
		}
		V::Str(s) => {
			if st.bit(2) && yaml_plain_ok(s) {
				out.push_str(s);
			} else if st.bit(2) && yaml_sq_ok(s) {
				out.push('\'');
				out.push_str(&s.replace('\'', "''"));
				out.push('\'');
			} else {
				yaml_dq(out, s, st.bit(1));
			}
		}
		_ => return false,
	}
	true
}

fn yaml_flow(out: &mut String, v: &V, st: Style) -> bool {
	match v {
		V::Arr(a) => {
			out.push('[');
			for (i, x) in a.iter().enumerate() {
				if i > 0 {
					out.push_str(", ");
				}
				if !yaml_flow(out, x, st) {
					return false;
				}
			}
			out.push(']');
			true
		}
		V::Map(m) => {
			out.push('{');
			for (i, (k, x)) in m.iter().enumerate() {
				if i > 0 {
					out.push_str(", ");
				}
				if !yaml_flow(out, k, st) {
					return false;
				}
				out.push_str(": ");
				if !yaml_flow(out, x, st) {
					return false;
				}
			}
			out.push('}');
			true
		}
		x => yaml_scalar(out, x, st),
	}
}

/// Block style; `indent` is the column of this node; the cursor is at that column already.
fn yaml_block(out: &mut String, v: &V, indent: usize, st: Style) -> bool {
	match v {
		V::Arr(a) if !a.is_empty() => {
			for (i, x) in a.iter().enumerate() {
				if i > 0 {
					out.push_str(&" ".repeat(indent));
				}
				out.push_str("- ");
				match x {
					V::Arr(y) if !y.is_empty() => {
						if !yaml_block(out, x, indent + 2, st) {
							return false;
						}
					}
					V::Map(y) if !y.is_empty() => {
						if !yaml_block(out, x, indent + 2, st) {
							return false;
						}
					}
					_ => {
						if !yaml_flow(out, x, st) {
							return false;
						}
						out.push('\n');
					}
				}
			}
			true
		}
		V::Map(m) if !m.is_empty() => {
			for (i, (k, x)) in m.iter().enumerate() {
				if i > 0 {
					out.push_str(&" ".repeat(indent));
				}
				if k.is_collection() {
					out.push_str("? ");
					if !yaml_flow(out, k, st) {
						return false;
					}
					out.push('\n');
					out.push_str(&" ".repeat(indent));
					out.push(':');
				} else {
					if !yaml_scalar(out, k, st) {
						return false;
					}
					out.push(':');
				}
				match x {
					V::Arr(y) if !y.is_empty() => {
						out.push('\n');
						out.push_str(&" ".repeat(indent + 2));
						if !yaml_block(out, x, indent + 2, st) {
							return false;
						}
					}
					V::Map(y) if !y.is_empty() => {
						out.push('\n');
						out.push_str(&" ".repeat(indent + 2));
						if !yaml_block(out, x, indent + 2, st) {
							return false;
						}
					}
					_ => {
						out.push(' ');
						if !yaml_flow(out, x, st) {
							return false;
						}
						out.push('\n');
					}
				}
			}
			true
		}
		x => {
			if !yaml_flow(out, x, st) {
				return false;
			}
			out.push('\n');
			true
		}
	}
}

// ---------------------------------------------------------------------------------------- TOML

fn toml_str(out: &mut String, s: &str) {
	out.push('"');
	for ch in s.chars() {
		let u = ch as u32;
		match ch {
			'"' => out.push_str("\\\""),
			'\\' => out.push_str("\\\\"),
			'\n' => out.push_str("\\n"),
			'\t' => out.push_str("\\t"),
			'\r' => out.push_str("\\r"),
			_ if u < 0x20 || u == 0x7f => {
				let _ = write!(out, "\\u{u:04X}");
			}
			c => out.push(c),
		}
	}
	out.push('"');
}

fn toml_key(out: &mut String, k: &str, st: Style) {
	let bare = !k.is_empty() && k.chars().all(|c| c.is_ascii_alphanumeric() || c == '_' || c == '-');
	if bare && !st.bit(1) {
		out.push_str(k);
	} else if st.bit(1) && !k.contains('\'') && k.chars().all(|c| (c as u32) >= 0x20 && (c as u32) != 0x7f) {
		out.push('\'');
		out.push_str(k);
		out.push('\'');
	} else {
		toml_str(out, k);
	}
}

fn toml_inline(out: &mut String, v: &V, st: Style) -> bool {
	match v {
		V::Bool(b) => out.push_str(if *b { "true" } else { "false" }),
		V::Int(i) => {
			if *i > i128::from(i64::MAX) || *i < i128::from(i64::MIN) {
				return false;
			}
			if st.bit(1) && *i >= 0 {
				let _ = write!(out, "0x{i:x}");
			} else {
				let _ = write!(out, "{i}");
			}
		}
		V::Float(b) => {
			let f = f64::from_bits(*b);
			if f.is_nan() {
				out.push_str("nan");
			} else if f.is_infinite() {
				out.push_str(if f > 0.0 { "inf" } else { "-inf" });
			} else {
				out.push_str(&float_text(*b, st.bit(1), false));
			}
		}
		V::Str(s) => toml_str(out, s),
		V::Arr(a) => {
			out.push('[');
			for (i, x) in a.iter().enumerate() {
				if i > 0 {
					out.push_str(", ");
				}
				if !toml_inline(out, x, st) {
					return false;
				}
			}
			out.push(']');
		}
		V::Map(m) => {
			out.push('{');
			for (i, (k, x)) in m.iter().enumerate() {
				if i > 0 {
					out.push_str(", ");
				}
				match k {
					V::Str(k) => toml_key(out, k, st),
					_ => return false,
				}
				out.push_str(" = ");
				if !toml_inline(out, x, st) {
					return false;
				}
			}
			out.push('}');
		}
		_ => return false,
	}
	true
}

/// Table body with `[path]` headers for sub-tables (style bit 0 off) or inline tables (on).
fn toml_table(out: &mut String, m: &[(V, V)], path: &str, st: Style) -> bool {
	// TOML requires simple values before sub-table headers; the *input order* we want xt to see
	// is the order of `m`, so header style is only usable when that order already has tables last.
	let is_tbl = |v: &V| matches!(v, V::Map(_));
	let first_tbl = m.iter().position(|(_, v)| is_tbl(v)).unwrap_or(m.len());
	let header_ok = !st.bit(0) && m[first_tbl..].iter().all(|(_, v)| is_tbl(v));
	for (k, x) in m {
		let V::Str(k) = k else { return false };
		if header_ok && is_tbl(x) {
			let V::Map(sub) = x else { unreachable!() };
			let mut p = String::from(path);
			if !p.is_empty() {
				p.push('.');
			}
			toml_key(&mut p, k, st);
			let _ = writeln!(out, "[{p}]");
			if !toml_table(out, sub, &p, st) {
				return false;
			}
		} else {
			toml_key(out, k, st);
			out.push_str(" = ");
			if !toml_inline(out, x, st) {
				return false;
			}
			out.push('\n');
		}
	}
	true
}

// ------------------------------------------------------------------------------------- entry

/// Spells one document. None when the format cannot express the value (or this style cannot).
pub fn spell_doc(f: F, v: &V, st: Style) -> Option<Vec<u8>> {
	match f {
		F::Json => {
			let mut s = String::new();
			json_into(&mut s, v, st).then(|| s.into_bytes())
		}
		F::Msgpack => {
			let mut b = vec![];
			mp_into(&mut b, v, st.bit(0)).then_some(b)
		}
		F::Yaml => {
			let mut s = String::new();
			// bit0: flow vs block; styles 4,5: block with base indentation 2 / explicit '---'
			// styles 6, 7: a comment and a blank line, then an implicit document indented by 3
			let st = if st.0 >= 6 { Style(st.0 | 0x100) } else { st };
			let lead = st.0 & 0x100 != 0;
			let st = Style(st.0 & 0xff);
			let ok = if st.bit(0) && !lead {
				let ok = yaml_flow(&mut s, v, st);
				s.push('\n');
				ok
			} else {
				let base = if lead { 3 } else if st.0 == 4 { 2 } else { 0 };
				s.push_str(&" ".repeat(base));
				yaml_block(&mut s, v, base, Style(if lead { 0 } else { st.0 }))
			};
			if lead {
				s.insert_str(0, "# leading comment\n\n");
				if st.0 == 7 && s.ends_with('\n') {
					s.pop();
				}
			}
			if st.0 == 5 {
				s.insert_str(0, "---\n");
			}
			ok.then(|| s.into_bytes())
		}
		F::Toml => {
			let V::Map(m) = v else { return None };
			if v.any(&|x| matches!(x, V::Null | V::Bytes(_) | V::F32(_) | V::Other(_))) {
				return None;
			}
			let mut s = String::new();
			toml_table(&mut s, m, "", st).then(|| s.into_bytes())
		}
	}
}

/// Spells a stream of documents with the format's natural separators. `sep` picks a separator style.
pub fn spell_stream(f: F, docs: &[V], st: Style, sep: u32) -> Option<Vec<u8>> {
	if f == F::Toml && docs.len() != 1 {
		return None;
	}
	let mut out = vec![];
	for (i, d) in docs.iter().enumerate() {
		let b = spell_doc(f, d, st)?;
		match f {
			F::Json => {
				if i > 0 {
					out.extend_from_slice(match sep % 4 {
						0 => b"\n",
						1 => b" ",
						2 => b"\r\n",
						// no separator is only unambiguous after a self-delimiting value
						_ => {
							if matches!(docs[i - 1], V::Arr(_) | V::Map(_) | V::Str(_)) {
								b""
							} else {
								b"\n"
							}
						}
					});
				}
				out.extend_from_slice(&b);
				if i + 1 == docs.len() && sep % 2 == 0 {
					out.push(b'\n');
				}
			}
			F::Msgpack => out.extend_from_slice(&b),
			F::Yaml => {
				let explicit = b.starts_with(b"---\n");
				match sep % 4 {
					0 => {
						if !explicit {
							out.extend_from_slice(b"---\n");
						}
					}
					1 => {
						if i > 0 {
							out.extend_from_slice(b"...\n");
						}
						if !explicit && i > 0 {
							out.extend_from_slice(b"---\n");
						}
					}
					2 => {
						if !explicit {
							out.extend_from_slice(b"--- # doc\n");
						} else {
							out.extend_from_slice(b"# doc\n");
						}
					}
					_ => {
						if i > 0 {
							out.extend_from_slice(b"...\n# between\n");
						}
						if !explicit {
							out.extend_from_slice(b"%YAML 1.2\n---\n");
						}
					}
				}
				out.extend_from_slice(&b);
			}
			F::Toml => {
				if docs.len() != 1 {
					return None;
				}
				out.extend_from_slice(&b);
			}
		}
	}
	Some(out)
}

/// Can `to` represent `v` (within the common model + what the pair supports)?
pub fn representable(v: &V, to: F) -> bool {
	match to {
		F::Json => !v.any(&|x| match x {
			V::Float(b) => !f64::from_bits(*b).is_finite(),
			V::Map(m) => m.iter().any(|(k, _)| !matches!(k, V::Str(_))),
			V::Bytes(_) | V::F32(_) | V::Other(_) => true,
			_ => false,
		}),
		F::Msgpack => !v.any(&|x| matches!(x, V::Other(_))),
		F::Yaml => !v.any(&|x| matches!(x, V::Bytes(_) | V::Other(_) | V::F32(_))),
		F::Toml => {
			matches!(v, V::Map(_))
				&& !v.any(&|x| match x {
					V::Null | V::Bytes(_) | V::F32(_) | V::Other(_) => true,
					V::Int(i) => *i > i128::from(i64::MAX),
					V::Map(m) => m.iter().any(|(k, _)| !matches!(k, V::Str(_))),
					_ => false,
				})
		}
	}
}
