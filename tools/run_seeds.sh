#!/bin/bash
# run_seeds.sh [tier] [seed-dir-names...]   apply each seeded change to /repo, run the check of the property it
# targets, undo it straight afterwards. Results are appended to seeded/RESULTS.tsv.
tier=${1:-quick}; shift
cd /verif
seeds=("$@"); [ ${#seeds[@]} -eq 0 ] && seeds=($(ls seeded | grep -E '^C[0-9]+-m'))
if [ -n "$(git -C /repo status --porcelain --untracked-files=no)" ]; then echo "/repo has local changes; refusing"; exit 2; fi
for s in "${seeds[@]}"; do
	prop=${s%%-*}
	grep -q "\"property_id\": \"$prop\"" MANIFEST.json || { echo -e "$s\t$prop\t$tier\tno-check-yet"; continue; }
	if grep -q '"status": "neutralised' seeded/$s/meta.json 2>/dev/null; then printf "%s\t%s\t%s\tneutralised by a later fix (see meta.json)\n" "$s" "$prop" "$tier" | tee -a seeded/RESULTS.tsv; continue; fi
	git -C /repo apply /verif/seeded/$s/patch.diff || { echo -e "$s\t$prop\t$tier\tapply-failed"; continue; }
	start=$(date +%s)
	./check $prop $tier > .work/seed-$s.log 2>&1; rc=$?
	end=$(date +%s)
	git -C /repo checkout -- .
	v=$(grep -c '^VIOLATION' .work/seed-$s.log)
	first=$(grep -A1 '^VIOLATION' .work/seed-$s.log | sed -n 2p | tr -d '\r\t' | cut -c1-160)
	printf "%s\t%s\t%s\trc=%s\tviolations=%s\t%ss\t%s\n" "$s" "$prop" "$tier" "$rc" "$v" "$((end-start))" "$first" | tee -a seeded/RESULTS.tsv
done
# leave the harness built against the clean tree again
./check setup >/dev/null 2>&1
