#!/bin/bash
# collect_seed.sh <round-dir> <Cxx> <dest-suffix> <round-number>  -- verify a sub-agent's change and file it under seeded/
rd=$1; c=$2; suf=$3; round=$4
m=$rd/$c/out/m1
[ -f "$m/patch.diff" ] || { echo "$c: no patch"; exit 1; }
line=$(/verif/tools/verify_seed.sh $rd/$c $m 2>&1 | tail -1)
echo "$line"
case "$line" in *"suite=142/0"*"demo_without=0"*) ;; *) echo "$c: NOT CONFIRMED"; exit 1;; esac
case "$line" in *"demo_with=0 "*) echo "$c: demo passes with the change"; exit 1;; esac
d=/verif/seeded/$c-$suf; mkdir -p $d
cp $m/patch.diff $d/; [ -f $m/README.md ] && cp $m/README.md $d/
demos=$(cd $m; ls demo.* 2>/dev/null); for f in $demos; do cp $m/$f $d/; done
python3 - "$d" "$c" "$round" "$line" $demos <<'PY'
import json,sys
d,c,r,line=sys.argv[1:5]; demos=sys.argv[5:]
json.dump({"property":c,"round":int(r),"origin":"fresh sub-agent given only the property text, one-line descriptions of the earlier changes to avoid, and a scratch worktree (no access to /verif)","verified_at_commit":"bb5b7fa","verification":line+"  (suite=passed/failed with the change; demo_with must be non-zero; demo_without must be 0) — run by /verif/tools/verify_seed.sh in the scratch worktree","demonstration":demos,"needs_to_manifest":"see README.md (author's description)"},open(d+"/meta.json","w"),indent=1)
PY
