#!/bin/bash
# run_thorough.sh <ids...>  : runs thorough tiers one after another, logs under .work/thorough-<id>.log
cd /verif
for id in "$@"; do
	start=$(date +%s)
	XTMC_THREADS=${XTMC_THREADS:-8} ./check $id thorough > .work/thorough-$id.log 2>&1
	rc=$?
	echo "$id rc=$rc $(( $(date +%s) - start ))s $(grep -c '^VIOLATION' .work/thorough-$id.log) violations" >> .work/thorough-summary.txt
	cp evidence/$id.json .work/thorough-evidence-$id.json 2>/dev/null
done
