#!/bin/bash
# verify_seed.sh <worktree> <mdir>   confirm a seeded change: suite green with it, demo fails with it, demo passes without it
# prints one line: <id> <m> suite=<n passed>/<fail> demo_with=<rc> demo_without=<rc>
wt=$1; m=$2; cd "$wt" || exit 2
export CARGO_NET_OFFLINE=true
git checkout -q -- . ; rm -f tests/seed_demo.rs
run_demo() {
	if [ -f "$m/demo.rs" ]; then
		cp "$m/demo.rs" tests/seed_demo.rs
		cargo test --offline --test seed_demo >"$m/.demo.log" 2>&1; rc=$?
		rm -f tests/seed_demo.rs
		return $rc
	elif [ -f "$m/demo.py" ]; then
		cargo build --offline >/dev/null 2>&1; cargo build --offline --release >/dev/null 2>&1
		python3 "$m/demo.py" >"$m/.demo.log" 2>&1; return $?
	elif [ -f "$m/demo.sh" ]; then
		cargo build --offline >/dev/null 2>&1; cargo build --offline --release >/dev/null 2>&1
		bash "$m/demo.sh" >"$m/.demo.log" 2>&1; return $?
	fi
	return 99
}
git apply "$m/patch.diff" || { echo "$wt $m APPLY-FAILED"; exit 1; }
suite=$(cargo test --workspace --no-fail-fast --offline 2>&1 | grep "^test result" | awk '{p+=$4; f+=$6} END {print p"/"f}')
run_demo; with=$?
cp "$m/.demo.log" "$m/.demo.with.log" 2>/dev/null
git checkout -q -- .
run_demo; without=$?
echo "$(basename $wt) $(basename $m) suite=$suite demo_with=$with demo_without=$without"
