#!/usr/bin/env python3
"""Regenerates /verif/MANIFEST.json from the table below (one entry per built check)."""
import json, subprocess

CHECKS = {
 "C01": dict(cat="exploration", design="4.1",
   technique="bounded-exhaustive enumeration of documents x spellings x 16 format pairs x supply modes on the real library, outputs read back by independent readers against a reference value model",
   text="Every enumerated document (all trees up to n nodes, integer/float/string families, every Unicode scalar value, depth chains) in every spelling of every source format, for all 16 pairs, slice and reader, named and detected source: the output read by the harness's own reader of the target denotes exactly the expected value (types, binary64 bits, code points, order; TOML modulo its table partition). Exhaustive within the enumerated alphabets.",
   note="Trusted: the harness's own JSON/MessagePack readers, libyaml parser events + own YAML 1.2 core-schema resolver, Python tomllib; the spellers only emit spellings that are unambiguous in the format specifications. Values outside the alphabets are not covered."),
 "C02": dict(cat="model_checking", design="4.2",
   technique="stateless deviation-bounded exploration of read schedules (all chunkings for short inputs) over bounded-exhaustive inputs, on the real library; slice run as reference",
   text="For every enumerated input (all token sequences up to k per format, seed corpus and its single-edit neighbourhood, all byte strings <= 2) and every read schedule within the deviation bound (every chunking for short inputs), translate_reader gives the verdict and bytes of translate_slice. Exhaustive within the stated bounds; coverage counts are in the evidence.",
   note="Trusted: the harness's SchedReader (never returns Interrupted / premature EOF), catch_unwind isolation, the explanation tests of the four known-finding classes in KNOWN_FINDINGS.txt (each recomputed per case). Inputs beyond the alphabets/bounds are not covered."),
 "C03": dict(cat="model_checking", design="4.3",
   technique="exhaustive enumeration of call histories on one real Translator over an input alphabet (depth-bounded), plus N-document streams and document boundaries at every offset around buffer sizes under deviation-bounded read schedules; sequential-composition reference + independent framing readers",
   text="Every history of translate calls (mixed formats, slice/reader, named/detected, including failing inputs) up to the depth bound on one Translator, for each streaming target, outputs exactly the concatenation of each document's stand-alone translation, and the target's independent reader recovers exactly N documents; the same for N-document streams (N to 1000) and for streams whose document boundary sits at every offset around 8 KiB multiples, from slice and from readers within the schedule bound; the CLI part runs mixed-format file lists through the real binary.",
   note="Reference = xt's own single-document translation (sequential composition), so absolute value fidelity is left to C01. Trusted: harness readers for framing."),
 "C04": dict(cat="exploration", design="4.4",
   technique="bounded-exhaustive input enumeration x deviation-bounded read schedules on the real library inside crash-isolated worker processes (progress file, watchdog, RLIMIT_AS, default main-thread stack), plus the adversarial families through the real binaries",
   text="Every enumerated input (token sequences, seed prefixes and edits, all byte strings <= 2, nesting to 10^5-10^6 of every bracket kind, every MessagePack declared-length header, alias bombs and anchor abuses, a refused value at every node) for named and detected sources, all targets, slice and reader schedules returns Ok or Err: no caught panic, no worker death (abort, stack overflow, allocation failure), no 90 s stall; the debug and release binaries only ever exit 0 or 1 on the adversarial families.",
   note="Termination is judged by a no-progress watchdog. The harness build of xt keeps debug assertions and overflow checks on and unwinds, so debug-only panics are seen; the shipped panic=abort behaviour is exercised through the binaries."),
 "C05": dict(cat="model_checking", design="4.5",
   technique="enumeration of packetisations and deviation-bounded read schedules with a monitor evaluated at every read() of the real library (lag), plus long generated streams under a counting allocator whose abstract heap states must recur (memory)",
   text="For every enumerated stream shape, source (named and detected), target and packetisation (and every schedule within the deviation bound for small streams) the lag monitor holds at every read(): documents 1..j-2 are fully written once j documents were delivered. For generated streams of tens of thousands of documents the live heap does not grow between the second and third quarter, stays under 8 MiB + 24 largest documents, and its abstract states recur.",
   note="Memory = live heap of the translating thread as seen by a counting GlobalAlloc; fragmentation and RSS are not modelled. The claim for longer streams rests on determinism plus the reported recurrence."),
 "C06": dict(cat="exploration", design="4.6",
   technique="bounded-exhaustive enumeration of documents x ordered format pairs, metamorphic two-hop oracle on the real library (idempotence and round trip), both supply modes at each hop",
   text="For every enumerated document (C01 corpus, boundary-sized collections, buffer-straddling strings, extensions) and every ordered pair (A,B): whenever xt(A->B)(x) succeeds, xt(B->B) reproduces it byte for byte from slice and reader, and for common-model documents xt(B->A) of it equals xt(A->A)(x) (TOML: of the reordered value).",
   note="Metamorphic oracle: xt is compared with itself, so a defect that affects both sides identically is invisible here (C01 covers absolute fidelity)."),
 "C07": dict(cat="exploration", design="4.7",
   technique="exhaustive enumeration over all Unicode scalar values, all ill-formed unit classes, the encoder's hidden-state product and encoded YAML texts under deviation-bounded read schedules, on the real re-encoder (hook) and the real library",
   text="Every Unicode scalar value in 8 encodings re-encodes to exactly its UTF-8 for all listed consumer read sizes and source buffer sizes; every four-character length-class sequence under every short consumer read pattern; every ill-formed UTF-16 first unit x continuation class and every UTF-32 value is rejected without fabricating characters; encoding detection matches YAML 1.2 section 5.2 on every BOM/ASCII-led stream; every generated YAML text in 8 encodings translates exactly like its UTF-8 form from slice and reader (cuts inside code units), explicit and detected.",
   note="Trusted: std's UTF-16/32 decoding as the well-formedness reference; the hook yaml_reencode forwards to Encoder::from_reader. Texts beyond the generators are not covered."),
 "C08": dict(cat="model_checking", design="4.8",
   technique="exhaustive enumeration of call histories (depth 3) on one real Translator(TOML) against a reference model of the one-use state, plus refusals planted at every node of every small tree; validity decided by an independent TOML reader",
   text="Every history of up to 3 calls over the input alphabet (all source formats, slice and reader, accepted / refused / empty / multi-document / malformed inputs) leaves the writer with nothing or exactly one valid TOML document equal to the accepted value, refuses every later document, and writes nothing for a refused one; every small tree with a null, oversized integer, non-string key or binary planted at any node is refused cleanly; every key style and array shape produces valid TOML that reads back as the value.",
   note="Trusted: Python tomllib for validity/value; the reference model in c08.rs (boring: a used flag and an acceptability predicate). After malformed inputs only output validity is judged."),
 "C09": dict(cat="model_checking", design="4.9",
   technique="explicit-state BFS to fixpoint over operation programs on the real rewindable input handle (canonical keys read through a hook, validated by probe suffixes) + deviation-bounded schedule exploration of detection over bounded-exhaustive inputs",
   text="(A) every reachable state of the input handle for data sizes 0..n under 5 source answer patterns, every borrow program up to the op bound from each state, both ways of taking ownership from each state, checked against a byte-string+offset reference model; (B) for every corpus input and every read schedule within the deviation bound: detection never errs, undetected inputs fail with exactly 'unable to detect input format', detected inputs behave exactly (verdict, bytes, error text) like the explicit run, slice and reader detect the same format for translatable inputs.",
   note="Trusted: hook HandleProbe only forwards to the private Handle/Ref/CaptureReader API; explicit-format runs are schedule-independent (checked by C02), so two fixed policies serve as explicit references; known-finding classes are recomputed per case."),
 "C10": dict(cat="exploration", design="4.10",
   technique="bounded-exhaustive enumeration of collection-rooted documents written by xt itself, detection re-run from slice and under deviation-bounded read schedules, exception predicate decided by independent readers",
   text="Every enumerated collection-rooted document/stream, written by xt in each format, is detected as that format from a slice and from a reader under every schedule within the bound, and translating it without -f equals translating it with -f; TOML outputs that an earlier trial also accepts (own JSON reader / own YAML reader decide) are counted as the documented exception.",
   note="Trusted: the harness's JSON reader and libyaml-event YAML reader for the exception predicate. Documents beyond the enumerated families are not covered."),
 "C11": dict(cat="fault_enumeration", design="4.11",
   technique="exhaustive defect enumeration on the real library: a syntax defect at every byte position, an unrepresentable value at every node path, a writer failing at every output byte; reference texts obtained at run time from the source/target crates themselves",
   text="For every small tree in every source spelling: each single-byte syntax defect yields the source parser's own message (identical for all streaming targets, never 'translation failed'); each unrepresentable value planted at any node yields an error containing the target serializer's own reason; a writer that starts failing at any byte of the output yields an error containing the writer's text or the serializer's own reason, for every syntactic element class.",
   note="Trusted: the pinned serde_json / serde_yaml / rmp_serde / toml crates as the source of reference texts (driven through the same entry points xt uses, with value-typed visitors). For YAML from a reader only position presence and target-independence are judged (the chunker's texts are xt's own)."),
 "C12": dict(cat="fault_enumeration", design="4.12",
   technique="exhaustive fault-point enumeration on the real library: reader fails at every byte offset, writer fails at every output byte, deviation-bounded short-write and read-schedule exploration, flush failure",
   text="For every corpus input, source selection and target: a reader failing at EVERY offset k (including in place of EOF) yields Err with the reader's text and only complete fault-free documents before it; a writer failing at EVERY k yields Err with accepted bytes a prefix of the fault-free output; every short-write schedule within the bound yields exactly the fault-free output; flush errors are forwarded.",
   note="Fault model as in the property: once failing, a reader/writer keeps failing; a reader that already answered EOF stays at EOF. Document framing of partial output is decided by the harness's own readers."),
 "C13": dict(cat="exploration", design="4.13",
   technique="exhaustive enumeration of argument vectors up to a length bound over a vocabulary x stdin contents x stdout kinds, run through the real binary, against a reference model of the command line plus the library's verdict",
   text="Every argv up to the length bound over the vocabulary, with translatable/malformed/empty stdin and stdout a pipe, file or pty: exit 2 exactly for invalid command lines (usage on stderr, nothing on stdout), exit 0 exactly when help/version is served or every input translates (stdout equals the help text / the library's bytes), exit 1 otherwise with 'xt error' naming the failing input and stdout a prefix of the library's bytes; MessagePack never reaches a terminal; never a signal.",
   note="Trusted: the harness's reference model of conventional option parsing (written from doc/xt.1), openpty for the terminal case. Unreadable (mode 000) files are not produced (the sandbox runs as root)."),
 "C14": dict(cat="exploration", design="4.14",
   technique="exhaustive product enumeration (-f x file-name spellings x contents x supply kinds x targets) through the real binary, compared with the library run in-process for the source the reference rule resolves",
   text="For the full product of -f option, extension spelling in every letter case, multi-dot / hidden / extension-less / misleading names, contents of each format (and ambiguous, invalid, empty), regular file / FIFO / stdin / '-' supply and all targets: stdout and exit status equal the library's result for the source resolved by -f > extension > detection; '-' at every position, '-' twice, directories and nested paths agree with one in-process Translator.",
   note="Trusted: std::path extension semantics for 'last extension'; the library as the oracle for bytes (its own correctness is C01-C12's subject)."),
 "C15": dict(cat="fault_enumeration", design="4.15",
   technique="exhaustive enumeration of input lists (size classes x failure kinds x failing position x targets x stdout kind) through the real binary, compared with one in-process Translator",
   text="For every list of up to 3 inputs (thorough: 6) over output size classes from 12 B to 1.2 MB and every failure kind at every position, all targets, stdout a pipe or a file: exit 1 exactly when the library fails, and stdout then starts with the complete translations of all earlier inputs; all-good lists exit 0 with every byte written.",
   note="Trusted: the library run in-process as the byte oracle."),
 "C16": dict(cat="fault_enumeration", design="4.16",
   technique="exhaustive syscall-level fault enumeration through an LD_PRELOAD shim (every write(2) index on fd 1 x errno / short write) plus a real pipe whose consumer leaves at enumerated byte counts while xt is provably blocked in write",
   text="For every scenario (all targets, output sizes around the 8 KiB buffer and several pipe capacities, file and stdin input, one and several inputs) and EVERY write call index on stdout: EPIPE ends xt by SIGPIPE with empty stderr (never exit 0), ENOSPC/EIO end it with status 1 and an 'xt error' message, a short write loses nothing; a real consumer that takes k bytes and leaves (k enumerated, xt pinned in a blocked write) gives the same; /dev/full gives status 1 and a message.",
   note="Trusted: the shim (checked transparent when idle, and seen to intercept writes by the dry run), /proc/<pid>/syscall as evidence that xt is blocked in write(1). Kernel-internal timing races are not explored; Linux only."),
 "C17": dict(cat="fault_enumeration", design="4.17",
   technique="exhaustive fault enumeration on the real code compiled with AddressSanitizer inside crash-isolated workers (read schedules, reader error at every offset, over-reporting readers of every excess at every read index, parser/chunker abandoned at every event/document), with per-operation live-heap accounting for leaks",
   text="For every enumerated YAML input: every schedule within the bound (with 'fail now' at every read), a reader error at every offset, early drops of the parser after every event and of the chunker after every document, and over-reporting readers of every listed excess at each early read index, fed to the parser, chunker, re-encoder and public API - no AddressSanitizer report (worker death), every outcome Ok / Err / caught panic, and the live heap returns to its previous level (a repeated leak is a violation).",
   note="ASan does not see uninitialised reads or aliasing violations (Miri is discussed in DESIGN.md). Leak accounting relies on the harness's counting allocator; the one known leak class (a panic unwinding through libyaml frames) is listed in KNOWN_FINDINGS.txt."),
 "C18": dict(cat="exploration", design="4.18",
   technique="exhaustive enumeration of nesting depths in a window around each format's limit x periodic nesting shapes x targets x supply modes on the real library, plus far depths through the real debug and release binaries",
   text="For every nesting shape up to the period bound and every depth in the window around each limit: verdicts are monotone in depth, identical for slice and reader and with detection; MessagePack accepts exactly 1023 collections around a scalar in both modes and its slice pre-pass agrees with an independent decoder; the debug and release binaries survive (exit 0/1, no signal) limit-1, limit, limit+1 and depths up to 10^6 from a file (mmap) and from stdin.",
   note="Random shapes are represented by all periodic words up to the period bound. YAML map shapes stop at 10^4 (quick) / 3x10^4 (thorough) levels and block-style maps at 3x10^3: libyaml needs quadratic time on nested flow mappings and block maps need quadratic input size."),
}

NOT_YET = "check not built yet (planned in DESIGN.md section 4); not claimed until registered under checks"

def main():
    props = [json.loads(l) for l in open('/verif/properties.jsonl')]
    hooks = subprocess.run(['git','-C','/repo','log','--format=%H %s'],capture_output=True,text=True).stdout.splitlines()
    hook_commits = [l.split()[0] for l in hooks if l.split(' ',1)[1].startswith('verif:')]
    checks = []
    for pid, c in CHECKS.items():
        checks.append({
            "property_id": pid,
            "quick_cmd": f"./check {pid} quick",
            "thorough_cmd": f"./check {pid} thorough",
            "evidence_file": f"/verif/evidence/{pid}.json",
            "replay_cmd_template": "./check replay {path}",
            "engine": "xtmc",
            "level_claimed": {"category": c["cat"], "text": c["text"], "design_ref": f"DESIGN.md section {c['design']}"},
            "level_note": c["note"],
            "technique": c["technique"],
        })
    m = {
        "version": 1,
        "setup_cmd": "./check setup",
        "hooks": {
            "guard": "cargo feature `verif` (Cargo.toml [features] verif = []; every hook item is #[cfg(feature = \"verif\")])",
            "enable": "the harness crate /verif/xtmc depends on xt = { path = \"/repo\", features = [\"verif\"] }; CLI checks use the plain binary built without the feature",
            "baseline_off_cmd": "cd /repo && cargo test --workspace --no-fail-fast --offline",
            "source_commits": hook_commits,
            "add_only": True,
        },
        "engines": [
            {"name": "xtmc", "path": "/verif/xtmc", "serves_properties": sorted(CHECKS),
             "kind_free_text": "hand-written Rust explorer driving the real xt crate in-process: deviation-bounded choice-point exploration of read/write/flush answers (E1), history BFS with canonical state keys (E2), bounded-exhaustive input generators (E3), process driver with LD_PRELOAD write-fault shim for the CLI (E4)"},
        ],
        "checks": checks,
        "notes": "Driver: /verif/check <ID> <quick|thorough>; exit 0 held / 1 VIOLATION / 2 machinery error. Known findings: /verif/KNOWN_FINDINGS.txt (read-only at run time). Genuine defects repaired in /repo as 'fix:' commits are listed there as 'fixed:' lines.",
        "not_applicable": [{"property_id": p["id"], "reason": NOT_YET} for p in props if p["id"] not in CHECKS],
    }
    json.dump(m, open('/verif/MANIFEST.json','w'), indent=1)
    print("checks:", sorted(CHECKS))

main()
