#!/bin/bash
# run_refac.sh <name> <patch> [checks...]   apply a behaviour-preserving refactoring to /repo, run quick checks
# (default: all 18), undo it. Any VIOLATION here is a false alarm of the machinery. Results -> refactorings/RESULTS.tsv
name=$1; patch=$2; shift 2
checks=("$@"); [ ${#checks[@]} -eq 0 ] && checks=(C01 C02 C03 C04 C05 C06 C07 C08 C09 C10 C11 C12 C13 C14 C15 C16 C17 C18)
cd /verif
if [ -n "$(git -C /repo status --porcelain --untracked-files=no)" ]; then echo "/repo has local changes; refusing"; exit 2; fi
git -C /repo apply "$patch" || { echo "$name apply-failed"; exit 1; }
( cd /repo && cargo test --workspace --no-fail-fast --offline 2>&1 | grep "^test result" | awk '{p+=$4; f+=$6} END {print "suite " p "/" f}' ) > .work/refac-$name.suite
for c in "${checks[@]}"; do
	./check $c quick > .work/refac-$name-$c.log 2>&1; rc=$?
	v=$(grep -c '^VIOLATION' .work/refac-$name-$c.log)
	first=$(grep -A1 '^VIOLATION' .work/refac-$name-$c.log | sed -n 2p | tr -d '\r\t' | cut -c1-200)
	printf "%s\t%s\t%s\trc=%s\tviolations=%s\t%s\n" "$name" "$(cat .work/refac-$name.suite)" "$c" "$rc" "$v" "$first" | tee -a refactorings/RESULTS.tsv
done
git -C /repo checkout -- .
