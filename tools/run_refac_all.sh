#!/bin/bash
# run_refac_all.sh <old RESULTS.tsv>  : re-runs every (refactoring, check) pair listed in an earlier RESULTS.tsv
# with the current machinery; writes refactorings/RESULTS.tsv afresh.
old=$1; cd /verif
: > refactorings/RESULTS.tsv
for name in $(awk -F'\t' '{print $1}' "$old" | sort -u); do
	checks=$(awk -F'\t' -v n="$name" '$1==n {print $3}' "$old" | sort -u | tr '\n' ' ')
	tools/run_refac.sh "$name" "/verif/refactorings/$name/patch.diff" $checks
done
./check setup >/dev/null 2>&1
