/* LD_PRELOAD shim for the xtmc harness: controls write(2)/writev(2) on the standard output of the xt process
 * (descriptor 1 and every descriptor that refers to the same open file object, e.g. a dup of it).
 *   WFAULT_AT=j      index (0-based) of the first affected write call on fd 1
 *   WFAULT_ERRNO=e   from call j on, every write on fd 1 fails with errno e
 *   WFAULT_SHORT=m   call j alone is short: accepts 1 byte (m=1) or len-1 bytes (m=2)
 *   WFAULT_LOG=path  append "<len>\n" per write call on fd 1 (used by the dry run to count calls)
 */
#define _GNU_SOURCE
#include <dlfcn.h>
#include <errno.h>
#include <fcntl.h>
#include <stdio.h>
#include <stdlib.h>
#include <string.h>
#include <sys/stat.h>
#include <sys/uio.h>
#include <unistd.h>

static ssize_t (*real_write)(int, const void *, size_t);
static ssize_t (*real_writev)(int, const struct iovec *, int);
static int inited, logfd = -1;
static long at = -1, err_no = 0, short_mode = 0, count = 0;
static int have_id;
static dev_t out_dev;
static ino_t out_ino;

static void init(void) {
	if (inited) return;
	inited = 1;
	real_write = dlsym(RTLD_NEXT, "write");
	real_writev = dlsym(RTLD_NEXT, "writev");
	const char *s;
	if ((s = getenv("WFAULT_AT"))) at = atol(s);
	if ((s = getenv("WFAULT_ERRNO"))) err_no = atol(s);
	if ((s = getenv("WFAULT_SHORT"))) short_mode = atol(s);
	if ((s = getenv("WFAULT_LOG"))) logfd = open(s, O_WRONLY | O_CREAT | O_APPEND, 0600);
	struct stat st;
	if (fstat(1, &st) == 0) { have_id = 1; out_dev = st.st_dev; out_ino = st.st_ino; }
}

/* descriptor 1, or another descriptor for the very same pipe / file / device (stderr and the log are
 * different objects in every harness run) */
static int is_stdout(int fd) {
	if (fd == 1) return 1;
	if (fd == 2 || fd == logfd || !have_id) return 0;
	struct stat st;
	return fstat(fd, &st) == 0 && st.st_dev == out_dev && st.st_ino == out_ino;
}

/* returns -2 when the call should go through unchanged, otherwise the length to pass on (or -1 = fail) */
static long decide(size_t len) {
	long idx = count++;
	if (logfd >= 0) {
		char b[32];
		int n = snprintf(b, sizeof b, "%zu\n", len);
		real_write(logfd, b, n);
	}
	if (at < 0 || idx < at) return -2;
	if (err_no) return -1;
	if (short_mode && idx == at && len > 1) return short_mode == 1 ? 1 : (long)len - 1;
	return -2;
}

ssize_t write(int fd, const void *buf, size_t len) {
	init();
	if (is_stdout(fd)) {
		long d = decide(len);
		if (d == -1) { errno = (int)err_no; return -1; }
		if (d >= 0) return real_write(fd, buf, (size_t)d);
	}
	return real_write(fd, buf, len);
}

ssize_t writev(int fd, const struct iovec *iov, int n) {
	init();
	if (is_stdout(fd)) {
		size_t len = 0;
		for (int i = 0; i < n; i++) len += iov[i].iov_len;
		long d = decide(len);
		if (d == -1) { errno = (int)err_no; return -1; }
		if (d >= 0) {
			/* short: write only a prefix of the first non-empty buffer */
			for (int i = 0; i < n; i++)
				if (iov[i].iov_len) return real_write(fd, iov[i].iov_base, (size_t)d < iov[i].iov_len ? (size_t)d : iov[i].iov_len);
		}
	}
	return real_writev(fd, iov, n);
}
