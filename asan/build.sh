#!/bin/bash
# Builds the harness (and xt inside it) with nightly AddressSanitizer into a separate target dir.
set -e
cd /verif/xtmc
export CARGO_NET_OFFLINE=true
export RUSTFLAGS="-Zsanitizer=address --cfg xtmc_asan"
export CARGO_TARGET_DIR=/verif/.build/asan-target
cargo +nightly build --offline --release --target x86_64-unknown-linux-gnu
