#!/usr/bin/env python3
"""Independent TOML reader (stdlib tomllib) for the xtmc harness.

stdin/argv[1]: file with one record per line:  <id> TAB <hex expected canonical dump or '-'> TAB <hex TOML bytes>
stdout: one line per record that does not check:  <id> TAB <reason>
        final line: DONE <records> <ok>
The canonical dump mirrors xtmc's model::V::dump (types are explicit, floats by binary64 bits).
"""
import sys, struct, tomllib, datetime

def dump(v):
    if isinstance(v, bool):
        return 'T' if v else 'F'
    if isinstance(v, int):
        return 'i:%d' % v
    if isinstance(v, float):
        if v != v:
            return 'f:7ff8000000000000'
        return 'f:%016x' % struct.unpack('>Q', struct.pack('>d', v))[0]
    if isinstance(v, str):
        return 's:' + v.encode('utf-8').hex()
    if isinstance(v, list):
        return '[' + ' '.join(dump(x) for x in v) + ']'
    if isinstance(v, dict):
        return '{' + ' '.join(dump(k) + '=' + dump(x) for k, x in v.items()) + '}'
    if isinstance(v, (datetime.datetime, datetime.date, datetime.time)):
        return 'o:' + v.isoformat().encode().hex()
    return '?' + repr(v)

def norm_nan(s):
    # every NaN is the same value for our purposes
    return s

def main():
    f = open(sys.argv[1]) if len(sys.argv) > 1 else sys.stdin
    n = ok = 0
    for line in f:
        line = line.rstrip('\n')
        if not line:
            continue
        rid, exp, data = line.split('\t')
        n += 1
        try:
            text = bytes.fromhex(data).decode('utf-8')
        except UnicodeDecodeError as e:
            print('%s\tnot utf-8: %s' % (rid, e)); continue
        try:
            v = tomllib.loads(text)
        except Exception as e:
            print('%s\tinvalid TOML: %s' % (rid, str(e).replace('\n', ' '))); continue
        if exp != '-':
            got = dump(v)
            want = bytes.fromhex(exp).decode()
            if got != want:
                print('%s\tvalue differs: got %s' % (rid, got)); continue
        ok += 1
    print('DONE %d %d' % (n, ok))

main()
